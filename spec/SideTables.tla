----------------------------- MODULE SideTables -----------------------------
(***************************************************************************)
(* The per-thread attachment tables of src/ipc.rs.                         *)
(*                                                                         *)
(* Serialisation side (Mode = "ser", C14 and the position half of C04):    *)
(* IpcSender::send takes the thread's two tables (channels, regions),      *)
(* serialises the value - embedded endpoints and regions append themselves *)
(* to the tables and write their index into the byte stream; a Serialize   *)
(* impl may itself call send (nested), or fail - then puts the old tables  *)
(* back and hands the collected lists to the transport.                    *)
(*                                                                         *)
(* Deserialisation side (Mode = "de", C16): OpaqueIpcMessage::to swaps the *)
(* message's attachment lists into the tables; each embedded endpoint or   *)
(* region reads an index and takes that entry; afterwards the lists are    *)
(* swapped back and whatever was not taken is dropped with the message.    *)
(*                                                                         *)
(* A value is a script: a sequence of slots                                *)
(*   "D" data | "S" sender | "R" receiver | "M" region | "F" serialisation *)
(*   error | [inner, alive, swallow]  a nested send of script `inner` on a *)
(*   channel whose receiver is alive or not; `swallow` = the enclosing     *)
(*   Serialize impl ignores a failure of the nested send and goes on.      *)
(***************************************************************************)
EXTENDS Naturals, Sequences, FiniteSets, TLC

CONSTANTS
    Mode,          \* "ser" | "de"
    MaxDepth,      \* nesting depth of sends inside Serialize impls
    MaxLen,        \* slots per script
    SerVariant,    \* "restore" : tables are put back on every exit path (the repaired code)
                   \* "early_return" : `?` leaves before putting them back (the code as found)
    DeVariant,     \* "checked" : bad index / entry already taken => Err (the repaired code)
                   \* "unchecked" : Vec indexing and unwrap (the code as found)
    InitMode,      \* "all": every script is explored; "random": one random script per behaviour
                   \* (TLC -simulate), for bounds whose script set is too large to enumerate
    MaxAtt,        \* de: attachments per list
    MaxRefs        \* de: references read by the expected type

\* every slot is a record [k, inner, alive, swallow]; k = "N" is a nested send
Basic == {[k |-> x, inner |-> <<>>, alive |-> TRUE, swallow |-> FALSE] : x \in {"D", "S", "R", "M", "F"}}

RECURSIVE Scripts(_)
SeqsUpTo(S, n) == UNION {[1..k -> S] : k \in 0..n}
Scripts(d) ==
    IF d = 0 THEN SeqsUpTo(Basic, MaxLen)
    ELSE SeqsUpTo(Basic \cup {[k |-> "N", inner |-> s, alive |-> a, swallow |-> w] :
                                 s \in Scripts(d - 1), a \in BOOLEAN, w \in BOOLEAN}, MaxLen)

IsNested(s) == s.k = "N"

\* A random script (simulation). Sequences are built with Append so that every random draw is
\* evaluated exactly once.
RECURSIVE RandScript(_), RandSeq(_, _)
MkSlot(k, d) ==
    IF k \in {"N", "N2"}
      THEN [k |-> "N", inner |-> RandScript(d - 1), alive |-> RandomElement(BOOLEAN),
            swallow |-> RandomElement(BOOLEAN)]
      ELSE [k |-> k, inner |-> <<>>, alive |-> TRUE, swallow |-> FALSE]
RandSlot(d) ==
    MkSlot(RandomElement(IF d = 0 THEN {"D", "S", "R", "M", "F"}
                                  ELSE {"D", "S", "R", "M", "F", "N", "N2"}), d)
RandSeq(n, d) == IF n = 0 THEN <<>> ELSE Append(RandSeq(n - 1, d), RandSlot(d))
RandScript(d) == RandSeq(RandomElement(0..MaxLen), d)

VARIABLES
    \* ---- serialisation side
    script,        \* the value given to the top-level send
    stack,         \* frames of sends in progress, innermost last
    tabCh, tabShm, \* the thread's tables: sequences of attachment ids
    nextAtt,       \* attachment ids are handed out in visiting order
    out,           \* messages handed to the transport and accepted by it
    results,       \* one entry per finished send: [path, ok]
    \* ---- deserialisation side
    nch, nshm,     \* sizes of the message's two attachment lists
    refs,          \* the references the expected type reads: [k, i]
    pos,           \* how many have been read
    takenCh, takenShm,
    outcome,       \* "run" | "ok" | "err" | "panic" | "bogus"
    chosen         \* ser: the script has been chosen

vars == <<script, stack, tabCh, tabShm, nextAtt, out, results,
          nch, nshm, refs, pos, takenCh, takenShm, outcome, chosen>>

DeUnused == /\ nch = 0 /\ nshm = 0 /\ refs = <<>> /\ pos = 0
            /\ takenCh = {} /\ takenShm = {} /\ outcome = "run"
SerUnused == /\ script = <<>> /\ stack = <<>> /\ tabCh = <<>> /\ tabShm = <<>>
             /\ nextAtt = 1 /\ out = <<>> /\ results = <<>>

RefSet == [k : {"S", "R", "M"}, i : 0..MaxAtt]

Init ==
    IF Mode = "ser"
      THEN /\ SerUnused /\ DeUnused /\ chosen = FALSE
      ELSE /\ nch \in 0..MaxAtt /\ nshm \in 0..MaxAtt
           /\ refs \in SeqsUpTo(RefSet, MaxRefs)
           /\ pos = 0 /\ takenCh = {} /\ takenShm = {} /\ outcome = "run"
           /\ SerUnused /\ chosen = TRUE

-----------------------------------------------------------------------------
(* Serialisation *)

\* the program calls send(value): let old = mem::take(tables)
Choose ==
    /\ Mode = "ser" /\ ~chosen
    /\ script' \in (IF InitMode = "random" THEN {RandScript(MaxDepth)} ELSE Scripts(MaxDepth))
    /\ stack' = <<[todo |-> script', path |-> <<>>, alive |-> TRUE, savedCh |-> <<>>,
                   savedShm |-> <<>>, idx |-> <<>>, own |-> <<>>, failed |-> FALSE, n |-> 0,
                   swallow |-> FALSE]>>
    /\ chosen' = TRUE
    /\ UNCHANGED <<tabCh, tabShm, nextAtt, out, results, nch, nshm, refs, pos, takenCh, takenShm, outcome>>

Top == stack[Len(stack)]
SetTop(f) == [stack EXCEPT ![Len(stack)] = f]
DeVars == <<nch, nshm, refs, pos, takenCh, takenShm, outcome, chosen>>

\* an embedded sender/receiver: push onto the channel table, write the index
VisitChannel ==
    /\ stack # <<>> /\ ~Top.failed /\ Top.todo # <<>> /\ Head(Top.todo).k \in {"S", "R"}
    /\ tabCh' = Append(tabCh, nextAtt)
    /\ stack' = SetTop([Top EXCEPT !.todo = Tail(@),
                                   !.idx = Append(@, [k |-> Head(Top.todo).k, i |-> Len(tabCh)]),
                                   !.own = Append(@, [k |-> Head(Top.todo).k, att |-> nextAtt])])
    /\ nextAtt' = nextAtt + 1
    /\ UNCHANGED <<script, tabShm, out, results, DeVars>>

VisitRegion ==
    /\ stack # <<>> /\ ~Top.failed /\ Top.todo # <<>> /\ Head(Top.todo).k = "M"
    /\ tabShm' = Append(tabShm, nextAtt)
    /\ stack' = SetTop([Top EXCEPT !.todo = Tail(@),
                                   !.idx = Append(@, [k |-> "M", i |-> Len(tabShm)]),
                                   !.own = Append(@, [k |-> "M", att |-> nextAtt])])
    /\ nextAtt' = nextAtt + 1
    /\ UNCHANGED <<script, tabCh, out, results, DeVars>>

VisitData ==
    /\ stack # <<>> /\ ~Top.failed /\ Top.todo # <<>> /\ Head(Top.todo).k = "D"
    /\ stack' = SetTop([Top EXCEPT !.todo = Tail(@), !.idx = Append(@, [k |-> "D", i |-> 0])])
    /\ UNCHANGED <<script, tabCh, tabShm, nextAtt, out, results, DeVars>>

\* the value's Serialize impl reports an error
VisitFail ==
    /\ stack # <<>> /\ ~Top.failed /\ Top.todo # <<>> /\ Head(Top.todo).k = "F"
    /\ stack' = SetTop([Top EXCEPT !.failed = TRUE])
    /\ UNCHANGED <<script, tabCh, tabShm, nextAtt, out, results, DeVars>>

\* a Serialize impl calls send(): the nested send takes the tables as they are now
EnterNested ==
    /\ stack # <<>> /\ ~Top.failed /\ Top.todo # <<>> /\ IsNested(Head(Top.todo))
    /\ LET s == Head(Top.todo)
       IN stack' = Append(SetTop([Top EXCEPT !.todo = Tail(@), !.n = @ + 1]),
                          [todo |-> s.inner, path |-> Append(Top.path, Top.n + 1), alive |-> s.alive,
                           savedCh |-> tabCh, savedShm |-> tabShm, idx |-> <<>>, own |-> <<>>,
                           failed |-> FALSE, n |-> 0, swallow |-> s.swallow])
    /\ tabCh' = <<>> /\ tabShm' = <<>>
    /\ UNCHANGED <<script, nextAtt, out, results, DeVars>>

\* send() finishes (either way) and control returns to the enclosing Serialize impl, if any
Leave ==
    /\ stack # <<>> /\ (Top.failed \/ Top.todo = <<>>)
    /\ LET f  == Top
           ok == ~f.failed /\ f.alive
           rest == SubSeq(stack, 1, Len(stack) - 1)
       IN /\ IF f.failed /\ SerVariant = "early_return"
               THEN UNCHANGED <<tabCh, tabShm>>                    \* `?` returned first
               ELSE tabCh' = f.savedCh /\ tabShm' = f.savedShm     \* mem::replace(tables, old)
          /\ out' = IF ok THEN Append(out, [path |-> f.path, idx |-> f.idx, ch |-> tabCh,
                                            shm |-> tabShm, own |-> f.own])
                          ELSE out
          /\ results' = Append(results, [path |-> f.path, ok |-> ok])
          /\ stack' = IF rest = <<>> THEN rest
                      ELSE LET p == rest[Len(rest)]
                           IN [rest EXCEPT ![Len(rest)] =
                                 IF ~ok /\ ~f.swallow THEN [p EXCEPT !.failed = TRUE]
                                 ELSE [p EXCEPT !.idx = Append(@, [k |-> "N", i |-> 0])]]
    /\ UNCHANGED <<script, nextAtt, DeVars>>

SerNext == Choose \/ VisitChannel \/ VisitRegion \/ VisitData \/ VisitFail \/ EnterNested \/ Leave

-----------------------------------------------------------------------------
(* Deserialisation *)

SerVars == <<script, stack, tabCh, tabShm, nextAtt, out, results, chosen>>

ReadRef ==
    /\ Mode = "de" /\ outcome = "run" /\ pos < Len(refs)
    /\ LET r == refs[pos + 1]
           isCh == r.k \in {"S", "R"}
           inRange == r.i < (IF isCh THEN nch ELSE nshm)
           taken == IF isCh THEN r.i \in takenCh ELSE r.i \in takenShm
       IN /\ pos' = pos + 1
          /\ IF ~inRange
               THEN /\ outcome' = IF DeVariant = "checked" THEN "err" ELSE "panic"   \* vec[index]
                    /\ UNCHANGED <<takenCh, takenShm>>
               ELSE IF taken
                 THEN /\ outcome' = IF DeVariant = "checked" THEN "err"
                                    ELSE IF isCh THEN "bogus"      \* an endpoint made from fd -1
                                    ELSE "panic"                   \* .take().unwrap()
                      /\ UNCHANGED <<takenCh, takenShm>>
                 ELSE /\ outcome' = "run"
                      /\ takenCh' = IF isCh THEN takenCh \cup {r.i} ELSE takenCh
                      /\ takenShm' = IF isCh THEN takenShm ELSE takenShm \cup {r.i}
    /\ UNCHANGED <<nch, nshm, refs, SerVars>>

Finish ==
    /\ Mode = "de" /\ outcome = "run" /\ pos = Len(refs)
    /\ outcome' = "ok"
    /\ UNCHANGED <<nch, nshm, refs, pos, takenCh, takenShm, SerVars>>

Next == (Mode = "ser" /\ SerNext) \/ ReadRef \/ Finish

Spec == Init /\ [][Next]_vars /\ WF_vars(Next)

-----------------------------------------------------------------------------
(* Properties *)

SerDone == Mode = "ser" /\ chosen /\ stack = <<>>
DeDone  == Mode = "de" /\ outcome # "run"
Done    == SerDone \/ DeDone

\* C14: between top-level calls the library holds on to nothing
NothingRetained == SerDone => tabCh = <<>> /\ tabShm = <<>>

\* C14/C04: every message handed to the transport carries exactly the attachments of its own
\* value, and each index in its byte stream designates the attachment of that position
Resolve(m, e) == IF e.k = "M" THEN (IF e.i < Len(m.shm) THEN m.shm[e.i + 1] ELSE 0)
                 ELSE (IF e.i < Len(m.ch) THEN m.ch[e.i + 1] ELSE 0)
AttIdx(m) == SelectSeq(m.idx, LAMBDA e : e.k \in {"S", "R", "M"})
OwnAttachments ==
    \A j \in 1..Len(out) :
       LET m == out[j] a == AttIdx(m)
       IN /\ Len(a) = Len(m.own)
          /\ Len(m.ch) + Len(m.shm) = Len(m.own)
          /\ \A p \in 1..Len(a) : Resolve(m, a[p]) = m.own[p].att

\* C14: a send that failed handed nothing to the transport
FailedSendsSilent ==
    \A j \in 1..Len(out) : \E r \in 1..Len(results) : results[r].path = out[j].path /\ results[r].ok

\* C16
NoPanic       == outcome # "panic"
OnlyAttached  == outcome # "bogus"
DecodeTotal   == <>Done
=============================================================================
