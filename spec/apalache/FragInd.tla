------------------------------ MODULE FragInd ------------------------------
(***************************************************************************)
(* The fragment loop of OsIpcSender::send (Frag.tla's SendFragment /       *)
(* TrySingle / downsizing) with counters only, typed for Apalache, to show *)
(* for UNBOUNDED message lengths and any system send-buffer size that      *)
(*   - every packet put on a wire fits the buffer the receiver offers for  *)
(*     it (first packet: MaxFrag; follow-up at position p: min(FragSize(   *)
(*     Sys), len - p)),                                                    *)
(*   - the slice data[pos..end] is always inside the message,              *)
(*   - the loop only reports success when everything was sent,             *)
(* by an inductive invariant:  Init => Ind  and  Ind /\ Next => Ind'.      *)
(* ENOBUFS may hit any transmission (no bound on how often).               *)
(***************************************************************************)
EXTENDS Integers

CONSTANT
    \* @type: Int;
    Sys          \* SYSTEM_SENDBUF_SIZE

VARIABLES
    \* @type: Int;
    len,
    \* @type: Int;
    sb,
    \* @type: Int;
    pos,
    \* @type: Str;
    phase,       \* "start" | "frag" | "ok" | "err"
    \* @type: Bool;
    fits         \* ghost: every packet transmitted so far fitted the receiver's buffer

FragSize(s) == s - 32
FirstFragSize(s) == ((FragSize(s) - 8) \div 8) * 8
MaxFrag == FirstFragSize(Sys)
Min(a, b) == IF a < b THEN a ELSE b
Downsize(s, sent) == IF s \div 2 >= sent THEN sent \div 2 ELSE s \div 2

ConstInit == Sys \in Nat /\ Sys >= 4096 /\ Sys <= 16777216

Init ==
    /\ len \in Nat /\ sb = Sys /\ pos = 0 /\ phase = "start" /\ fits = TRUE

\* single-packet attempt (len <= MaxFrag): succeeds, or ENOBUFS -> downsize and fragment / give up
TrySingle ==
    /\ phase = "start" /\ len <= MaxFrag
    /\ \/ /\ phase' = "ok" /\ pos' = len /\ sb' = sb
          /\ fits' = (fits /\ len <= MaxFrag)
       \/ /\ len > 2000 /\ sb' = Downsize(sb, len) /\ phase' = "frag" /\ pos' = 0 /\ fits' = fits
       \/ /\ len <= 2000 /\ phase' = "err" /\ UNCHANGED <<sb, pos, fits>>
    /\ UNCHANGED len

TooBig ==
    /\ phase = "start" /\ len > MaxFrag
    /\ phase' = "frag" /\ UNCHANGED <<len, sb, pos, fits>>

End == IF pos = 0 THEN FirstFragSize(sb) ELSE Min(pos + FragSize(sb), len)

\* one iteration of the loop: transmitted, or ENOBUFS (downsize and retry / give up)
SendFragment ==
    /\ phase = "frag" /\ pos < len
    /\ \/ /\ pos' = End /\ UNCHANGED <<sb, phase>>
          /\ fits' = (fits /\ (IF pos = 0 THEN End <= MaxFrag
                               ELSE End - pos <= Min(FragSize(Sys), len - pos)))
       \/ /\ End - pos > 2000 /\ sb' = Downsize(sb, End - pos) /\ UNCHANGED <<pos, phase, fits>>
       \/ /\ End - pos <= 2000 /\ phase' = "err" /\ UNCHANGED <<sb, pos, fits>>
    /\ UNCHANGED len

Done ==
    /\ phase = "frag" /\ pos >= len
    /\ phase' = "ok" /\ UNCHANGED <<len, sb, pos, fits>>

Stutter == phase \in {"ok", "err"} /\ UNCHANGED <<len, sb, pos, phase, fits>>

Next == TrySingle \/ TooBig \/ SendFragment \/ Done \/ Stutter

\* the inductive invariant
Ind ==
    /\ phase \in {"start", "frag", "ok", "err"}
    /\ len >= 0 /\ pos >= 0 /\ pos <= len
    /\ sb >= 1000 /\ sb <= Sys
    /\ fits
    /\ phase = "start" => (pos = 0 /\ sb = Sys)
    \* the slice of the first fragment lies inside the message
    /\ (phase = "frag" /\ pos = 0) => (len > 0 /\ FirstFragSize(sb) < len /\ FirstFragSize(sb) > 0)
    /\ phase = "ok" => pos = len

\* what the properties need from it
Safe == fits /\ (phase = "ok" => pos = len) /\ pos <= len

IndInit ==
    /\ len \in Nat /\ sb \in Nat /\ pos \in Nat /\ phase \in {"start", "frag", "ok", "err"} /\ fits \in BOOLEAN
    /\ Ind
=============================================================================
