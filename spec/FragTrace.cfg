SPECIFICATION TraceSpec
CONSTANTS
  SysSendBuf = 0
  Reserved = 0
  Hdr = 8
  Align = 8
  MinRetry = 2000
  CmsgCap = 64
  KernelMaxFds = 253
  Lens = {}
  Atts = {}
  MaxFaultAttempts = 0
  HardAt = 0
  Variant = "code"
INVARIANTS TIntact TAttachOnce TRetryAcceptable TBufferSafe TNoMangle
POSTCONDITION TraceAccepted
CHECK_DEADLOCK FALSE
