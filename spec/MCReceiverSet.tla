--------------------------- MODULE MCReceiverSet ---------------------------
EXTENDS ReceiverSet, Json

Quiet == /\ \A m \in Members : spc[m] = "done"
         /\ pc = "idle" /\ pi > Len(Prog) /\ inset = {}

Export == Quiet => PrintT("@@" \o ToJson([sched |-> sched, log |-> log, selects |-> selects]))
=============================================================================
