--------------------------- MODULE MCReceiverSet ---------------------------
EXTENDS ReceiverSet, Json

Quiet == /\ \A m \in Members : spc[m] \in {"done", "dead"}
         /\ pc = "idle" /\ pi > Len(Prog) /\ inset = {}

Export == Quiet => PrintT("@@" \o ToJson([sched |-> sched, log |-> log, selects |-> selects]))
=============================================================================
