------------------------------ MODULE Transport ------------------------------
(***************************************************************************)
(* The concurrent packet protocol of the Unix transport                    *)
(* (src/platform/unix/mod.rs): several sender handles of ONE channel, in   *)
(* threads or processes, each sending a sequence of messages of 1..3       *)
(* packets; one receiver issuing recv / try_recv / try_recv_timeout calls. *)
(*                                                                         *)
(* One action per system call: a multi-packet send is                      *)
(*   socketpair ; sendmsg(first packet + dedicated receiver) ;             *)
(*   send(follow-up) ... ; close(dedicated rx) ; close(dedicated tx)       *)
(* and a receive is                                                        *)
(*   [fcntl(O_NONBLOCK) | poll] ; recvmsg ; [fcntl(0)] ; recv(follow-up)...*)
(* A sender process may be killed between any two of its system calls.     *)
(*                                                                         *)
(* Decides (model level): C02 Whole / ExactlyOnce / RealTimeFIFO,          *)
(* C10 BlockingRestored / NoMiss, C12 CrashSafe.                           *)
(***************************************************************************)
EXTENDS Naturals, Sequences, FiniteSets, TLC

CONSTANTS
    Senders,        \* sender ids
    Msgs,           \* Msgs[s]: sequence of packet counts (1..3) of the messages s sends
    Plan,           \* the receiver's calls: sequence over {"recv", "try", "timeout"}; a final "drop"
                    \* drops the receiver handle (nothing is called after it)
    Crashers,       \* senders that live in a process that may be killed (at most one kill)
    FollowOnShared, \* TRUE: follow-ups travel on the channel's own socket (wrong design)
    RestoreBlocking,\* FALSE: try_recv forgets to clear O_NONBLOCK (wrong design)
    EarlyRxClose,   \* TRUE: the sender closes its own copy of the dedicated receiving end right after
                    \* the first fragment went out (so that a vanished receiver is noticed by the
                    \* follow-ups); FALSE: it keeps it until send returns (the code as found)
    IncompleteIs    \* what recv reports when a fragmented message stops short because its
                    \* sender died: "error" (a non-disconnect error; the repaired code) or
                    \* "disc" (the code as found: indistinguishable from disconnection)

ASSUME \A s \in Senders : \A i \in 1..Len(Msgs[s]) : Msgs[s][i] \in 1..6

M(s, j) == <<s, j>>                      \* message id
AllMsgs == UNION {{M(s, j) : j \in 1..Len(Msgs[s])} : s \in Senders}
NPk(m) == Msgs[m[1]][m[2]]

VARIABLES
    shared,     \* the channel's socket: queue of packets [m, i, n]  (i = 1 for first packets)
    ded,        \* ded[m]: queue of follow-up packets of message m on its dedicated socket
    dedTx,      \* dedTx[m]: the sender's end of m's dedicated socket is open
    spc,        \* spc[s]: "idle" | "first" | "follow" | "closerx" | "closetx" | "drop" | "done" | "dead"
    cur,        \* cur[s]: index of the message s is sending / will send next
    nxt,        \* nxt[s]: next packet index to transmit of the current message
    rpc,        \* receiver: "idle" | "setnb" | "poll" | "inpoll" | "recvmsg" | "inrecv" | "clearnb" |
                \*           "follow" | "infollow" | "closeded" | "ret"
    call,       \* index into Plan of the call in progress
    rm, rgot,   \* message being reassembled and packets obtained so far (sequence of <<m,i>>)
    res,        \* result of the call in progress
    nonblock,   \* O_NONBLOCK of the receiver's open file description
    delivered,  \* sequence of delivered messages, each a sequence of <<m, i>>
    rlog,       \* result of every finished call: "msg" | "empty" | "disc" | "error"
    done,       \* messages whose send returned success
    hb,         \* pairs <<m1, m2>>: send(m1) returned before send(m2) began
    killed,     \* a kill has happened
    rclosed,    \* the receiving end has been dropped
    failed,     \* failed[s]: a transmission of s's current message failed (send will return Err)
    holdsRx,    \* holdsRx[s]: s still holds its own copy of the current message's dedicated receiver
    slog,       \* results of finished sends: [s, j, res, late]  (late: begun after the receiver vanished)
    falseOk,    \* some send returned Ok although part of it was transmitted to nobody
    sched       \* history: the schedule as a sequence of [a, k]  (actor, system call)

vars == <<shared, ded, dedTx, spc, cur, nxt, rpc, call, rm, rgot, res, nonblock,
          delivered, rlog, done, hb, killed, rclosed, failed, holdsRx, slog, falseOk, sched>>

View == <<shared, ded, dedTx, spc, cur, nxt, rpc, call, rm, rgot, res, nonblock, delivered, rlog,
          done, hb, killed, rclosed, failed, holdsRx, slog, falseOk>>

SV == <<rclosed, failed, holdsRx, slog, falseOk>>      \* the variables of the send-result bookkeeping

Init ==
    /\ shared = <<>>
    /\ ded = [m \in AllMsgs |-> <<>>]
    /\ dedTx = [m \in AllMsgs |-> FALSE]
    /\ spc = [s \in Senders |-> IF Len(Msgs[s]) = 0 THEN "drop" ELSE "idle"]
    /\ cur = [s \in Senders |-> 1]
    /\ nxt = [s \in Senders |-> 1]
    /\ rpc = "idle" /\ call = 1 /\ rm = <<0, 0>> /\ rgot = <<>> /\ res = "none"
    /\ nonblock = FALSE
    /\ delivered = <<>> /\ rlog = <<>> /\ done = {} /\ hb = {} /\ killed = FALSE
    /\ rclosed = FALSE /\ failed = [s \in Senders |-> FALSE] /\ holdsRx = [s \in Senders |-> FALSE]
    /\ slog = <<>> /\ falseOk = FALSE
    /\ sched = <<>>

Step(a, k) == sched' = Append(sched, [a |-> a, k |-> k])
CurMsg(s) == M(s, cur[s])

\* the sender handle s still exists: its thread/process has not finished or died
HandleAlive(s) == spc[s] \notin {"done", "dead"}
AnySender == \E s \in Senders : HandleAlive(s)

-----------------------------------------------------------------------------
(* Senders.  `send` begins at SendBegin (the call) and returns at the last step of the message. *)

FinishMsg(s, ok) ==
    /\ done' = IF ok THEN done \cup {CurMsg(s)} ELSE done
    /\ slog' = Append(slog, [s |-> s, j |-> cur[s], res |-> IF ok THEN "ok" ELSE "err"])
    /\ IF cur[s] < Len(Msgs[s])
         THEN cur' = [cur EXCEPT ![s] = @ + 1] /\ spc' = [spc EXCEPT ![s] = "idle"]
         ELSE cur' = cur /\ spc' = [spc EXCEPT ![s] = "drop"]     \* the handle is dropped next

\* send() is called: a single-packet message goes out with one sendmsg
SendSingle(s) ==
    /\ spc[s] = "idle" /\ NPk(CurMsg(s)) = 1
    /\ hb' = hb \cup {<<m1, CurMsg(s)>> : m1 \in done}
    \* sending to a receiving end that is gone fails (EPIPE/ECONNRESET) and transfers nothing
    /\ shared' = IF rclosed THEN shared ELSE Append(shared, [m |-> CurMsg(s), i |-> 1, n |-> 1])
    /\ FinishMsg(s, ~rclosed)
    /\ Step(s, "sendmsg")
    /\ UNCHANGED <<ded, dedTx, nxt, rpc, call, rm, rgot, res, nonblock, delivered, rlog, killed,
                   rclosed, failed, holdsRx, falseOk>>

\* send() is called with a multi-packet message: socketpair()
MkDedicated(s) ==
    /\ spc[s] = "idle" /\ NPk(CurMsg(s)) > 1
    /\ hb' = hb \cup {<<m1, CurMsg(s)>> : m1 \in done}
    /\ dedTx' = [dedTx EXCEPT ![CurMsg(s)] = TRUE]
    /\ holdsRx' = [holdsRx EXCEPT ![s] = TRUE] /\ failed' = [failed EXCEPT ![s] = FALSE]
    /\ spc' = [spc EXCEPT ![s] = "first"]
    /\ Step(s, "socketpair")
    /\ UNCHANGED <<shared, ded, cur, nxt, rpc, call, rm, rgot, res, nonblock, delivered, rlog, done, killed,
                   rclosed, slog, falseOk>>

\* sendmsg(first fragment, descriptors + dedicated receiver)
SendFirst(s) ==
    /\ spc[s] = "first"
    /\ IF rclosed
         THEN \* EPIPE: send() will return the error after dropping both dedicated ends
              /\ failed' = [failed EXCEPT ![s] = TRUE] /\ shared' = shared
              /\ spc' = [spc EXCEPT ![s] = "closerx"] /\ nxt' = nxt
         ELSE /\ shared' = Append(shared, [m |-> CurMsg(s), i |-> 1, n |-> NPk(CurMsg(s))])
              /\ spc' = [spc EXCEPT ![s] = IF EarlyRxClose THEN "closerx" ELSE "follow"]
              /\ nxt' = [nxt EXCEPT ![s] = 2] /\ failed' = failed
    /\ Step(s, "sendmsg")
    /\ UNCHANGED <<ded, dedTx, cur, rpc, call, rm, rgot, res, nonblock, delivered, rlog, done, hb, killed,
                   rclosed, holdsRx, slog, falseOk>>

\* send(follow-up fragment) on the dedicated socket
\* somebody can still read m's dedicated socket: the sender's own copy of the receiving end, the copy
\* in flight inside the channel's queue, or the receiver in the middle of reassembling m
DedReadable(s, m) ==
    \/ holdsRx[s]
    \/ \E i \in 1..Len(shared) : shared[i].m = m
    \/ (rm = m /\ res = "partial" /\ rpc \in {"clearnb", "follow", "infollow"})

SendFollow(s) ==
    /\ spc[s] = "follow"
    /\ LET m == CurMsg(s) p == [m |-> m, i |-> nxt[s], n |-> NPk(m)]
           after == IF EarlyRxClose THEN "closetx" ELSE "closerx"
       IN IF ~FollowOnShared /\ ~DedReadable(s, m)
            THEN \* EPIPE on the dedicated socket: nobody will ever read this message
                 /\ failed' = [failed EXCEPT ![s] = TRUE]
                 /\ spc' = [spc EXCEPT ![s] = after]
                 /\ UNCHANGED <<shared, ded, nxt, falseOk>>
            ELSE /\ IF FollowOnShared
                      THEN shared' = Append(shared, p) /\ ded' = ded
                      ELSE ded' = [ded EXCEPT ![m] = Append(@, p)] /\ shared' = shared
                 \* transmitted although the receiving end of the channel is gone: the message is lost
                 /\ falseOk' = (falseOk \/ (rclosed /\ nxt[s] = NPk(m)))
                 /\ IF nxt[s] = NPk(m)
                      THEN spc' = [spc EXCEPT ![s] = after] /\ nxt' = nxt
                      ELSE spc' = spc /\ nxt' = [nxt EXCEPT ![s] = @ + 1]
                 /\ failed' = failed
    /\ Step(s, "send")
    /\ UNCHANGED <<dedTx, cur, rpc, call, rm, rgot, res, nonblock, delivered, rlog, done, hb, killed,
                   rclosed, holdsRx, slog>>

\* drop(dedicated_rx): the sender's copy of the receiving end (another one is in flight or received)
CloseDedRx(s) ==
    /\ spc[s] = "closerx"
    /\ holdsRx' = [holdsRx EXCEPT ![s] = FALSE]
    /\ spc' = [spc EXCEPT ![s] = IF EarlyRxClose /\ ~failed[s] THEN "follow" ELSE "closetx"]
    /\ Step(s, "close")
    /\ UNCHANGED <<shared, ded, dedTx, cur, nxt, rpc, call, rm, rgot, res, nonblock, delivered, rlog,
                   done, hb, killed, rclosed, failed, slog, falseOk>>

\* drop(dedicated_tx); send() returns Ok
CloseDedTx(s) ==
    /\ spc[s] = "closetx"
    /\ dedTx' = [dedTx EXCEPT ![CurMsg(s)] = FALSE]
    /\ FinishMsg(s, ~failed[s])
    /\ Step(s, "close")
    /\ UNCHANGED <<shared, ded, nxt, rpc, call, rm, rgot, res, nonblock, delivered, rlog, hb, killed,
                   rclosed, failed, holdsRx, falseOk>>

\* the sender handle is dropped: close() of its descriptor (every handle has its own descriptor
\* here: handles that merely share one descriptor count as one sender)
DropHandle(s) ==
    /\ spc[s] = "drop"
    /\ spc' = [spc EXCEPT ![s] = "done"]
    /\ Step(s, "close")
    /\ UNCHANGED <<shared, ded, dedTx, cur, nxt, rpc, call, rm, rgot, res, nonblock, delivered, rlog,
                   done, hb, killed>> /\ UNCHANGED SV

\* the process of sender s is killed between two system calls (premise K8: all its descriptors
\* are closed; what it had queued stays queued)
Kill(s) ==
    /\ s \in Crashers /\ ~killed /\ spc[s] \notin {"done", "dead"}
    /\ killed' = TRUE
    /\ spc' = [spc EXCEPT ![s] = "dead"]
    /\ dedTx' = [m \in AllMsgs |-> IF m[1] = s THEN FALSE ELSE dedTx[m]]
    /\ holdsRx' = [holdsRx EXCEPT ![s] = FALSE]
    /\ Step(s, "kill")
    /\ UNCHANGED <<shared, ded, cur, nxt, rpc, call, rm, rgot, res, nonblock, delivered, rlog, done, hb,
                   rclosed, failed, slog, falseOk>>

-----------------------------------------------------------------------------
(* Receiver *)

Mode == Plan[call]
RUnch == UNCHANGED <<ded, dedTx, spc, cur, nxt, done, hb, killed>> /\ UNCHANGED SV

\* the call begins
RecvCall ==
    /\ rpc = "idle" /\ call <= Len(Plan) /\ Mode # "drop"
    /\ rpc' = CASE Mode = "try" -> "setnb" [] Mode = "timeout" -> "poll" [] OTHER -> "recvmsg"
    /\ res' = "none"
    /\ sched' = sched
    /\ UNCHANGED <<shared, call, rm, rgot, nonblock, delivered, rlog>> /\ RUnch

\* the receiver handle is dropped: close(); what is queued is discarded, descriptors in flight in it
\* are released (premise K7)
RecvDrop ==
    /\ rpc = "idle" /\ call <= Len(Plan) /\ Mode = "drop"
    /\ rclosed' = TRUE /\ shared' = <<>>
    /\ call' = Len(Plan) + 1
    /\ Step(0, "close")
    /\ UNCHANGED <<ded, dedTx, spc, cur, nxt, rpc, rm, rgot, res, nonblock, delivered, rlog, done, hb, killed,
                   failed, holdsRx, slog, falseOk>>

\* fcntl(fd, F_SETFL, O_NONBLOCK)
SetNonblock ==
    /\ rpc = "setnb"
    /\ nonblock' = TRUE /\ rpc' = "recvmsg"
    /\ Step(0, "fcntl")
    /\ UNCHANGED <<shared, call, rm, rgot, res, delivered, rlog>> /\ RUnch

\* poll() is entered; the thread sleeps in the kernel
\* (`rdy`: something is readable already; then the call returns at once whatever its timeout - the
\* harness passes a tiny timeout in that case, a long one when the model ends the wait by an arrival)
PollEnter ==
    /\ rpc = "poll"
    /\ rpc' = "inpoll"
    /\ sched' = Append(sched, [a |-> 0, k |-> "poll", rdy |-> (shared # <<>> \/ ~AnySender)])
    /\ UNCHANGED <<shared, call, rm, rgot, res, nonblock, delivered, rlog>> /\ RUnch

\* poll() returns: readable / hung up, or the timeout expired with nothing there
PollRet ==
    /\ rpc = "inpoll"
    /\ IF shared # <<>> \/ ~AnySender
         THEN rpc' = "recvmsg" /\ res' = res /\ Step(0, "pollret-ready")
         ELSE rpc' = "ret" /\ res' = "empty" /\ Step(0, "pollret-expired")
    /\ UNCHANGED <<shared, call, rm, rgot, nonblock, delivered, rlog>> /\ RUnch

\* what recvmsg does once it can complete
RecvMsgEffect ==
    \/ /\ shared # <<>>                                  \* a packet is there
       /\ LET p == Head(shared)
          IN /\ shared' = Tail(shared)
             /\ rm' = p.m /\ rgot' = <<<<p.m, p.i>>>>
             /\ res' = IF p.n = 1 THEN "msg" ELSE "partial"
    \/ /\ shared = <<>> /\ ~AnySender                    \* EOF: every sending end is closed
       /\ res' = "disc" /\ UNCHANGED <<shared, rm, rgot>>
    \/ /\ shared = <<>> /\ AnySender /\ nonblock         \* EAGAIN
       /\ res' = "empty" /\ UNCHANGED <<shared, rm, rgot>>

AfterRecvMsg == rpc' = IF Mode = "try" THEN "clearnb" ELSE IF res' = "partial" THEN "follow" ELSE "ret"

\* recvmsg on the channel's socket is called; it completes at once, or the thread sleeps in it
RecvMsg ==
    /\ rpc = "recvmsg"
    /\ IF shared = <<>> /\ AnySender /\ ~nonblock
         THEN /\ rpc' = "inrecv" /\ UNCHANGED <<shared, rm, rgot, res>>
         ELSE RecvMsgEffect /\ AfterRecvMsg
    /\ Step(0, "recvmsg")
    /\ UNCHANGED <<call, nonblock, delivered, rlog>> /\ RUnch

\* a packet arrives, or the last sender goes away, while the thread sleeps in recvmsg
RecvMsgWake ==
    /\ rpc = "inrecv" /\ (shared # <<>> \/ ~AnySender)
    /\ RecvMsgEffect /\ AfterRecvMsg
    /\ Step(0, "wake")
    /\ UNCHANGED <<call, nonblock, delivered, rlog>> /\ RUnch

\* fcntl(fd, F_SETFL, 0)
ClearNonblock ==
    /\ rpc = "clearnb"
    /\ nonblock' = IF RestoreBlocking THEN FALSE ELSE nonblock
    /\ rpc' = IF res = "partial" THEN "follow" ELSE "ret"
    /\ Step(0, "fcntl")
    /\ UNCHANGED <<shared, call, rm, rgot, res, delivered, rlog>> /\ RUnch

\* recv() on the dedicated socket (always blocking); with FollowOnShared, on the channel's socket.
\* The call completes at once when a fragment (or the end of file left by a dead sender) is there;
\* otherwise the thread sleeps in it until the sender gets that far (RecvFollowWake).
FollowSrc == IF FollowOnShared THEN shared ELSE ded[rm]
FollowEof == FollowSrc = <<>> /\ ~FollowOnShared /\ ~dedTx[rm] /\ spc[rm[1]] = "dead"   \* EOF mid-message
RecvFollowEffect ==
    LET src == FollowSrc
    IN \/ /\ src # <<>>
          /\ rgot' = Append(rgot, <<Head(src).m, Head(src).i>>)
          /\ IF FollowOnShared THEN shared' = Tail(shared) /\ ded' = ded
                               ELSE ded' = [ded EXCEPT ![rm] = Tail(@)] /\ shared' = shared
          /\ IF Len(rgot') = NPk(rm) THEN res' = "msg" /\ rpc' = "closeded"
                                     ELSE res' = res /\ rpc' = "follow"
       \/ /\ FollowEof
          /\ res' = IncompleteIs /\ rpc' = "closeded"
          /\ UNCHANGED <<shared, ded, rgot>>

RecvFollow ==
    /\ rpc = "follow"
    /\ IF FollowSrc = <<>> /\ ~FollowEof
         THEN rpc' = "infollow" /\ UNCHANGED <<shared, ded, rgot, res>>
         ELSE RecvFollowEffect
    /\ Step(0, "recv")
    /\ UNCHANGED <<dedTx, spc, cur, nxt, call, rm, nonblock, delivered, rlog, done, hb, killed>> /\ UNCHANGED SV

RecvFollowWake ==
    /\ rpc = "infollow" /\ (FollowSrc # <<>> \/ FollowEof)
    /\ RecvFollowEffect
    /\ Step(0, "wake")
    /\ UNCHANGED <<dedTx, spc, cur, nxt, call, rm, nonblock, delivered, rlog, done, hb, killed>> /\ UNCHANGED SV

\* the receiver's copy of the dedicated receiving end is dropped at the end of recv()
RecvCloseDed ==
    /\ rpc = "closeded"
    /\ rpc' = "ret"
    /\ Step(0, "close")
    /\ UNCHANGED <<shared, call, rm, rgot, res, nonblock, delivered, rlog>> /\ RUnch

\* the call returns
RecvRet ==
    /\ rpc = "ret"
    /\ rlog' = Append(rlog, res)
    /\ delivered' = IF res = "msg" THEN Append(delivered, rgot) ELSE delivered
    /\ call' = call + 1
    /\ rpc' = "idle"
    /\ sched' = sched
    /\ UNCHANGED <<shared, rm, rgot, res, nonblock>> /\ RUnch

SenderStep(s) == SendSingle(s) \/ MkDedicated(s) \/ SendFirst(s) \/ SendFollow(s)
                 \/ CloseDedRx(s) \/ CloseDedTx(s) \/ DropHandle(s)
ReceiverStep == RecvCall \/ RecvDrop \/ SetNonblock \/ PollEnter \/ PollRet \/ RecvMsg \/ RecvMsgWake
                \/ ClearNonblock \/ RecvFollow \/ RecvFollowWake \/ RecvCloseDed \/ RecvRet

Next == (\E s \in Senders : SenderStep(s) \/ Kill(s)) \/ ReceiverStep

Spec == Init /\ [][Next]_vars
FairSpec == Spec /\ WF_vars(ReceiverStep) /\ \A s \in Senders : WF_vars(SenderStep(s))

-----------------------------------------------------------------------------
(* Properties *)

Complete(parts) ==
    /\ parts # <<>>
    /\ LET m == parts[1][1]
       IN Len(parts) = NPk(m) /\ \A i \in 1..Len(parts) : parts[i] = <<m, i>>

\* C02/C12: every delivered message is one whole message
Whole == \A d \in 1..Len(delivered) : Complete(delivered[d])

MsgOf(d) == delivered[d][1][1]
\* C02: no message twice
AtMostOnce == \A d1, d2 \in 1..Len(delivered) : d1 # d2 => MsgOf(d1) # MsgOf(d2)

Pos(m) == CHOOSE d \in 1..Len(delivered) : MsgOf(d) = m
IsDelivered(m) == \E d \in 1..Len(delivered) : MsgOf(d) = m

\* C02: if send(m1) returned before send(m2) began, m1 is delivered first
RealTimeFIFO ==
    \A pr \in hb : IsDelivered(pr[2]) => (IsDelivered(pr[1]) /\ Pos(pr[1]) < Pos(pr[2]))

\* C03/C12: "disconnected" only when no sender handle exists and nothing is queued
DiscOnlyWhenDone ==
    \A i \in 1..Len(rlog) : rlog[i] = "disc" =>
        \* at the moment it was produced no sender was alive; senders never come back
        ~AnySender

\* C09: a send never reports success for a message part of which was transmitted to nobody
NoFalseSuccess == ~falseOk

\* C09: a send begun after the receiving end vanished fails; C02: one begun and finished before succeeds
SendResultsRight ==
    \A i \in 1..Len(slog) : slog[i].res = "ok" => <<slog[i].s, slog[i].j>> \in done

\* C10: outside a receive call the socket is in blocking mode
BlockingRestored == rpc = "idle" => ~nonblock

\* C10: a blocking receive never reports "empty"
BlockingNeverEmpty ==
    \A i \in 1..Len(rlog) : rlog[i] = "empty" => Plan[i] # "recv"

\* C02/C12 liveness: what was accepted is delivered if the receiver keeps receiving, and every
\* call returns unless the channel is connected and idle
\* C02: once the receiver has been told "disconnected", every accepted message was delivered
AcceptedDelivered ==
    (\E i \in 1..Len(rlog) : rlog[i] = "disc") => \A m \in done : IsDelivered(m)
Terminates == <>(\/ (rpc = "idle" /\ call > Len(Plan))
                 \/ (rpc = "inrecv" /\ shared = <<>> /\ AnySender))
=============================================================================
