---------------------------- MODULE MCSideTables ----------------------------
EXTENDS SideTables, Json

Export ==
    Done => PrintT("@@" \o ToJson(
       IF Mode = "ser"
         THEN [mode |-> "ser", script |-> script, results |-> results, out |-> out]
         ELSE [mode |-> "de", nch |-> nch, nshm |-> nshm, refs |-> refs, outcome |-> outcome]))
=============================================================================
