----------------------------- MODULE ProtoTrace -----------------------------
(***************************************************************************)
(* The packet protocol of ONE send and of ONE receive of the Unix          *)
(* transport, as a monitor over the system calls recorded from any run     *)
(* (binding B3).  It is the per-message projection of Transport.tla:       *)
(*                                                                         *)
(*   send  = one packet whose header announces exactly its own payload, or *)
(*           MkDedicated (a socket pair created FOR THIS MESSAGE), first   *)
(*           fragment carrying the pair's receiving end as its last        *)
(*           descriptor, the sender's own copy of that end closed, then    *)
(*           follow-ups on the pair's sending end only, then that end      *)
(*           closed;                                                       *)
(*   recv  = one packet from the channel's socket; when the header         *)
(*           announces more than arrived, the rest is read from the        *)
(*           descriptor that arrived LAST WITH THIS VERY PACKET and from   *)
(*           nowhere else, then that descriptor is closed.                 *)
(*                                                                         *)
(* Threads are numbered by the converter; every thread is inside at most   *)
(* one send and one receive scope (the library's OsIpcSender::send /       *)
(* recv(fd, mode) functions).  Runs without injected faults only: a failed *)
(* transmission ends the send.                                             *)
(***************************************************************************)
EXTENDS Naturals, Integers, Sequences, Json, IOUtils, TLC, TLCExt

CONSTANTS Threads, Hdr

VARIABLES l, snd, rcv
vars == <<l, snd, rcv>>

Rec == ndJsonDeserialize(IOEnv.TRACE)
E == Rec[l]
IsEv(k) == l <= Len(Rec) /\ Rec[l].ev = k /\ l' = l + 1

SIdle == [ph |-> "idle", len |-> 0, natt |-> 0, i0 |-> 0, i1 |-> 0, rx |-> 0, tx |-> 0, pos |-> 0,
          c0 |-> FALSE, c1 |-> FALSE]
Closed(s, ino) == IF ino = s.i0 THEN s.c0 ELSE s.c1
\* a socket pair made inside this send and not yet closed again (the library also makes - and closes at once - one
\* pair per process to learn the system's send-buffer size)
LivePair(s) == s.i0 # 0 /\ ~(s.c0 /\ s.c1)
RIdle == [ph |-> "idle", total |-> 0, pos |-> 0, ded |-> 0, dedclosed |-> FALSE]

TraceInit == l = 1 /\ snd = [t \in Threads |-> SIdle] /\ rcv = [t \in Threads |-> RIdle]

Scenario == IsEv("scn") /\ snd' = [t \in Threads |-> SIdle] /\ rcv' = [t \in Threads |-> RIdle]

-----------------------------------------------------------------------------
SEnter ==
    /\ IsEv("s.enter") /\ snd[E.t].ph = "idle"
    /\ snd' = [snd EXCEPT ![E.t] = [SIdle EXCEPT !.ph = "in", !.len = E.len, !.natt = E.natt]]
    /\ UNCHANGED rcv

\* a socket pair created inside this send: the message's dedicated socket (at most one per message)
SPair ==
    /\ IsEv("s.pair") /\ snd[E.t].ph = "in" /\ ~LivePair(snd[E.t])
    /\ snd' = [snd EXCEPT ![E.t].i0 = E.i0, ![E.t].i1 = E.i1, ![E.t].c0 = FALSE, ![E.t].c1 = FALSE]
    /\ UNCHANGED rcv

\* sendmsg on the channel's socket
SMsg ==
    /\ IsEv("s.msg") /\ snd[E.t].ph = "in"
    /\ LET s == snd[E.t] IN
       IF E.ok = 0 THEN snd' = [snd EXCEPT ![E.t].ph = "failed"]
       ELSE IF ~LivePair(s)
         THEN \* single packet: the header announces exactly this packet's payload, every attachment rides along
              /\ E.total = E.len /\ E.len = s.len /\ E.nfds = s.natt
              /\ snd' = [snd EXCEPT ![E.t].ph = "sent"]
         ELSE \* first fragment: the pair's receiving end goes last, after the message's own attachments
              /\ E.total = s.len /\ E.len < E.total /\ E.nfds = s.natt + 1
              /\ E.last \in {s.i0, s.i1}
              /\ snd' = [snd EXCEPT ![E.t].ph = "follow", ![E.t].rx = E.last,
                                    ![E.t].tx = IF E.last = s.i0 THEN s.i1 ELSE s.i0, ![E.t].pos = E.len]
    /\ UNCHANGED rcv

\* send() of a follow-up fragment: only on the dedicated socket's sending end, only after the sender has let go
\* of its own copy of the receiving end (otherwise a vanished receiver would go unnoticed - C09)
SFrag ==
    /\ IsEv("s.frag") /\ snd[E.t].ph = "follow"
    /\ E.ino = snd[E.t].tx /\ Closed(snd[E.t], snd[E.t].rx) /\ ~Closed(snd[E.t], snd[E.t].tx)
    /\ IF E.ok = 0 THEN snd' = [snd EXCEPT ![E.t].ph = "failed"]
       ELSE /\ snd[E.t].pos + E.len <= snd[E.t].len
            /\ snd' = [snd EXCEPT ![E.t].pos = @ + E.len]
    /\ UNCHANGED rcv

\* each end of the message's socket pair is closed exactly once (other descriptors are the ledger's business)
SClose ==
    /\ IsEv("s.close")
    /\ LET s == snd[E.t] IN
       IF s.i0 # 0 /\ E.ino = s.i0 THEN ~s.c0 /\ snd' = [snd EXCEPT ![E.t].c0 = TRUE]
       ELSE IF s.i0 # 0 /\ E.ino = s.i1 THEN ~s.c1 /\ snd' = [snd EXCEPT ![E.t].c1 = TRUE]
       ELSE UNCHANGED snd
    /\ UNCHANGED rcv

SLeave ==
    /\ IsEv("s.leave")
    /\ LET s == snd[E.t] IN
       \/ s.ph = "sent"
       \/ s.ph = "follow" /\ s.pos = s.len /\ s.c0 /\ s.c1
       \/ s.ph = "failed" /\ (s.i0 # 0 => (s.c0 /\ s.c1))
       \/ s.ph = "in"            \* refused before any transmission (too many attachments, EMSGSIZE ...)
          /\ (s.i0 # 0 => (s.c0 /\ s.c1))
    /\ snd' = [snd EXCEPT ![E.t] = SIdle]
    /\ UNCHANGED rcv

-----------------------------------------------------------------------------
REnter ==
    /\ IsEv("r.enter") /\ rcv[E.t].ph = "idle"
    /\ rcv' = [rcv EXCEPT ![E.t] = [RIdle EXCEPT !.ph = "in"]]
    /\ UNCHANGED snd

\* recvmsg on the channel's socket
RMsg ==
    /\ IsEv("r.msg") /\ rcv[E.t].ph = "in"
    /\ IF E.res <= 0 THEN rcv' = [rcv EXCEPT ![E.t].ph = "done"]          \* end of file, EAGAIN, error
       ELSE LET got == E.res - Hdr IN
            /\ got >= 0 /\ got <= E.total
            /\ IF got = E.total THEN rcv' = [rcv EXCEPT ![E.t].ph = "done"]
               ELSE \* the rest comes over the descriptor that arrived last with this packet
                    /\ E.nfds >= 1 /\ E.last > 0
                    /\ rcv' = [rcv EXCEPT ![E.t].ph = "follow", ![E.t].total = E.total, ![E.t].pos = got,
                                          ![E.t].ded = E.last]
    /\ UNCHANGED snd

RFrag ==
    /\ IsEv("r.frag") /\ rcv[E.t].ph = "follow"
    /\ E.ino = rcv[E.t].ded /\ ~rcv[E.t].dedclosed
    /\ IF E.res <= 0 THEN rcv' = [rcv EXCEPT ![E.t].ph = "torn"]          \* the sender died mid-message
       ELSE /\ rcv[E.t].pos + E.res <= rcv[E.t].total
            /\ rcv' = [rcv EXCEPT ![E.t].pos = @ + E.res]
    /\ UNCHANGED snd

RClose ==
    /\ IsEv("r.close")
    /\ IF rcv[E.t].ph \in {"follow", "torn"} /\ E.ino = rcv[E.t].ded
         THEN ~rcv[E.t].dedclosed /\ rcv' = [rcv EXCEPT ![E.t].dedclosed = TRUE]
         ELSE UNCHANGED rcv
    /\ UNCHANGED snd

RLeave ==
    /\ IsEv("r.leave")
    /\ LET r == rcv[E.t] IN
       \/ r.ph \in {"done", "in"}
       \/ r.ph = "follow" /\ r.pos = r.total /\ r.dedclosed
       \/ r.ph = "torn" /\ r.dedclosed
    /\ rcv' = [rcv EXCEPT ![E.t] = RIdle]
    /\ UNCHANGED snd

TraceNext == Scenario \/ SEnter \/ SPair \/ SMsg \/ SFrag \/ SClose \/ SLeave
             \/ REnter \/ RMsg \/ RFrag \/ RClose \/ RLeave
TraceSpec == TraceInit /\ [][TraceNext]_vars

TraceAccepted ==
    LET d == TLCGet("stats").diameter IN
    IF d - 1 = Len(Rec) THEN TRUE
    ELSE Print(<<"@@REJECT", d, IF d <= Len(Rec) THEN Rec[d] ELSE "eof">>, FALSE)
=============================================================================
