---------------------------- MODULE MCChannels ----------------------------
(* Model-checking wrapper for Channels: exports each completed behaviour (its log) as JSON,      *)
(* together with, per logged operation, the receivers that operation disconnects while they are  *)
(* idle (`wakes`): a receive blocked on such a receiver must wake up with "disconnected" (C03).   *)
EXTENDS Channels, Json

VARIABLE wlog

\* receivers held before and after the step, idle and connected before, idle and senderless after
Wakes == {h.id : h \in {x \in H \cap H' : /\ x.k = "R"
                                           /\ q[x.c] = <<>> /\ Senders(x.c) > 0
                                           /\ q'[x.c] = <<>> /\ (Senders(x.c))' = 0}}

MCInit == Init /\ wlog = <<>>
MCNext == Next /\ wlog' = IF log' # log THEN Append(wlog, Wakes) ELSE wlog
MCSpec == MCInit /\ [][MCNext]_<<vars, wlog>>

Export == Done => PrintT("@@" \o ToJson([ops |-> log, wakes |-> wlog]))
=============================================================================
