----------------------------- MODULE ReceiverSet -----------------------------
(***************************************************************************)
(* OsIpcReceiverSet (src/platform/unix/mod.rs): edge-triggered epoll over  *)
(* the members' sockets; select() = epoll_wait (at most Cap events), then  *)
(* for each reported member: receive until EWOULDBLOCK or end-of-channel.  *)
(*                                                                         *)
(* Each member m is one channel with one sender handle that sends the      *)
(* messages MMsgs[m] (1 or 2 packets each) and then drops the handle.      *)
(* The selecting thread runs Prog (adds and selects) and then keeps        *)
(* selecting while members remain.                                         *)
(*                                                                         *)
(* Premise K10 (edge-triggered epoll): every arrival / hang-up on a        *)
(* registered socket puts it on the ready list; registration reports       *)
(* readiness that exists already; epoll_wait takes min(|ready|, Cap)       *)
(* members off the head of the list (Linux keeps it in arming order), or   *)
(* sleeps while it is empty.                                               *)
(*                                                                         *)
(* Decides (model level) C06; the set half of C12.                         *)
(***************************************************************************)
EXTENDS Naturals, Sequences, FiniteSets, TLC

CONSTANTS
    Members,       \* member ids 1..n (also the actor id of the member's sender thread)
    MMsgs,         \* MMsgs[m]: packet counts (1 or 2) of the messages sent to member m
    Prog,          \* selecting thread: sequence of [op |-> "add", m |-> m] / [op |-> "select", m |-> 0]
    Cap,           \* capacity of the events buffer (Events::with_capacity)
    DrainOne,      \* TRUE: read one message per reported member (wrong design)
    LevelBlindAdd, \* TRUE: registration does not report readiness that already exists (a kernel
                   \* that behaved so would break the code; shows the premise is used)
    Crashers,      \* members whose sender lives in a process that may be killed between two system calls
    StopAfterTorn, \* TRUE: after a torn message (its sender died mid-way) the member is not drained any
                   \* further in this select (wrong: the hang-up edge is already consumed); FALSE: the code
    SendersFirst,  \* TRUE: explore only behaviours in which the selecting thread starts after every sender
                   \* has finished (bulk already queued when the set first looks)
    LateMembers    \* members whose channel is created only when the program adds it (after earlier members may
                   \* have closed and left the set: descriptor numbers get reused): their senders start after the add

VARIABLES
    mq,        \* mq[m]: queued first packets of member m: sequence of [x, n]  (x = message index)
    dq,        \* dq[m]: queued follow-up packets (on the dedicated socket of the message in progress)
    open,      \* open[m]: the sender handle of m still exists
    spc, cur,  \* sender m: pc and index of the message being sent
    inset,     \* members currently registered
    ids,       \* ids[m]: id returned by add (0 = not added yet)
    nextId,
    ready,     \* epoll ready list (a sequence: members in the order they were armed)
    batch,     \* events of the current epoll_wait still to be processed
    pc,        \* selecting thread: "idle" | "inwait" | "drain" | "infollow" | "done"
    pi,        \* position in Prog
    fm,        \* message index being reassembled (2-packet message)
    dead,      \* members whose sender process was killed
    dedOpen,   \* dedOpen[m]: the sender's end of the dedicated socket of m's current message is open
    results,   \* events collected by the select call in progress
    log,       \* all events returned so far: [t |-> "msg"|"closed", id, x]
    selects,   \* per finished select call: number of events it returned
    sched      \* history of (actor, system call)

vars == <<mq, dq, open, spc, cur, inset, ids, nextId, ready, batch, pc, pi, fm, results, log, selects, sched,
          dead, dedOpen>>
View == <<mq, dq, open, spc, cur, inset, ids, nextId, ready, batch, pc, pi, fm, results, log, dead, dedOpen>>

Init ==
    /\ mq = [m \in Members |-> <<>>] /\ dq = [m \in Members |-> <<>>]
    /\ open = [m \in Members |-> TRUE]
    /\ spc = [m \in Members |-> IF Len(MMsgs[m]) = 0 THEN "drop" ELSE "idle"]
    /\ cur = [m \in Members |-> 1]
    /\ inset = {} /\ ids = [m \in Members |-> 0] /\ nextId = 0
    /\ ready = <<>> /\ batch = <<>> /\ pc = "idle" /\ pi = 1 /\ fm = 0
    /\ results = <<>> /\ log = <<>> /\ selects = <<>> /\ sched = <<>>
    /\ dead = {} /\ dedOpen = [m \in Members |-> FALSE]

Step(a, k) == sched' = Append(sched, [a |-> a, k |-> k])
InReady(m) == \E i \in 1..Len(ready) : ready[i] = m
Arm(m) == IF m \in inset /\ ~InReady(m) THEN Append(ready, m) ELSE ready
Without(seq, m) == SelectSeq(seq, LAMBDA x : x # m)

-----------------------------------------------------------------------------
(* Senders *)

SUnch == UNCHANGED <<inset, ids, nextId, batch, pc, pi, fm, results, log, selects, dead>>

Advance(m) ==
    IF cur[m] < Len(MMsgs[m])
      THEN cur' = [cur EXCEPT ![m] = @ + 1] /\ spc' = [spc EXCEPT ![m] = "idle"]
      ELSE cur' = cur /\ spc' = [spc EXCEPT ![m] = "drop"]

SendSingle(m) ==
    /\ spc[m] = "idle" /\ MMsgs[m][cur[m]] = 1
    /\ mq' = [mq EXCEPT ![m] = Append(@, [x |-> cur[m], n |-> 1])]
    /\ ready' = Arm(m)
    /\ Advance(m)
    /\ Step(m, "sendmsg")
    /\ UNCHANGED <<dq, open>> /\ UNCHANGED dedOpen /\ SUnch

MkDed(m) ==
    /\ spc[m] = "idle" /\ MMsgs[m][cur[m]] = 2
    /\ spc' = [spc EXCEPT ![m] = "first"]
    /\ dedOpen' = [dedOpen EXCEPT ![m] = TRUE]
    /\ Step(m, "socketpair")
    /\ UNCHANGED <<mq, dq, open, cur, ready>> /\ SUnch

SendFirst(m) ==
    /\ spc[m] = "first"
    /\ mq' = [mq EXCEPT ![m] = Append(@, [x |-> cur[m], n |-> 2])]
    /\ ready' = Arm(m)
    /\ spc' = [spc EXCEPT ![m] = "c1"]       \* next: close our own copy of the dedicated receiving end
    /\ Step(m, "sendmsg")
    /\ UNCHANGED <<dq, open, cur>> /\ UNCHANGED dedOpen /\ SUnch

SendFollow(m) ==
    /\ spc[m] = "follow"
    /\ dq' = [dq EXCEPT ![m] = Append(@, cur[m])]
    /\ spc' = [spc EXCEPT ![m] = "c2"]
    /\ Step(m, "send")
    /\ UNCHANGED <<mq, open, cur, ready>> /\ UNCHANGED dedOpen /\ SUnch

CloseDed1(m) ==
    /\ spc[m] = "c1" /\ spc' = [spc EXCEPT ![m] = "follow"]
    /\ Step(m, "close")
    /\ UNCHANGED <<mq, dq, open, cur, ready>> /\ UNCHANGED dedOpen /\ SUnch

CloseDed2(m) ==
    /\ spc[m] = "c2" /\ Advance(m)
    /\ dedOpen' = [dedOpen EXCEPT ![m] = FALSE]
    /\ Step(m, "close")
    /\ UNCHANGED <<mq, dq, open, ready>> /\ SUnch

DropSender(m) ==
    /\ spc[m] = "drop"
    /\ spc' = [spc EXCEPT ![m] = "done"]
    /\ open' = [open EXCEPT ![m] = FALSE]
    /\ ready' = Arm(m)                                  \* hang-up edge
    /\ Step(m, "close")
    /\ UNCHANGED <<mq, dq, cur>> /\ UNCHANGED dedOpen /\ SUnch

\* the sender's process is killed between two system calls: every descriptor it holds is closed
Kill(m) ==
    /\ m \in Crashers /\ dead = {} /\ spc[m] \notin {"done", "dead"}
    /\ dead' = {m} /\ spc' = [spc EXCEPT ![m] = "dead"]
    /\ open' = [open EXCEPT ![m] = FALSE] /\ dedOpen' = [dedOpen EXCEPT ![m] = FALSE]
    /\ ready' = Arm(m)
    /\ Step(m, "kill")
    /\ UNCHANGED <<mq, dq, cur, inset, ids, nextId, batch, pc, pi, fm, results, log, selects>>

SenderStep(m) == SendSingle(m) \/ MkDed(m) \/ SendFirst(m) \/ SendFollow(m) \/ CloseDed1(m)
                 \/ CloseDed2(m) \/ DropSender(m)

-----------------------------------------------------------------------------
(* The selecting thread *)

RUnch == UNCHANGED <<open, spc, cur, dead, dedOpen>>

NextOp == IF pi <= Len(Prog) THEN Prog[pi] ELSE [op |-> "select", m |-> 0]

\* add(receiver): id from the counter, EPOLL_CTL_ADD
Add ==
    /\ pc = "idle" /\ pi <= Len(Prog) /\ NextOp.op = "add"
    /\ LET m == NextOp.m
       IN /\ ids' = [ids EXCEPT ![m] = nextId + 1]       \* stored +1 so that 0 means "not added"
          /\ nextId' = nextId + 1
          /\ inset' = inset \cup {m}
          /\ ready' = IF ~LevelBlindAdd /\ (mq[m] # <<>> \/ ~open[m]) THEN Append(ready, m) ELSE ready
    /\ pi' = pi + 1
    /\ Step(0, "add")
    /\ UNCHANGED <<mq, dq, batch, pc, fm, results, log, selects>> /\ RUnch

\* epoll_wait hands out the first min(|ready|, Cap) members of the list
TakeN == IF Len(ready) < Cap THEN Len(ready) ELSE Cap
TheBatch == SubSeq(ready, 1, TakeN)
Rest == SubSeq(ready, TakeN + 1, Len(ready))

\* select() is called while the program still wants to select: epoll_wait
MoreToDo == pi <= Len(Prog) \/ inset # {}
WaitCall ==
    /\ pc = "idle" /\ NextOp.op = "select" /\ MoreToDo
    /\ IF ready = <<>>
         THEN pc' = "inwait" /\ UNCHANGED <<batch, ready>>
         ELSE batch' = TheBatch /\ ready' = Rest /\ pc' = "drain"
    /\ results' = <<>>
    /\ pi' = IF pi <= Len(Prog) THEN pi + 1 ELSE pi
    /\ Step(0, "wait")
    /\ UNCHANGED <<mq, dq, inset, ids, nextId, fm, log, selects>> /\ RUnch

WaitWake ==
    /\ pc = "inwait" /\ ready # <<>>
    /\ batch' = TheBatch /\ ready' = Rest
    /\ pc' = "drain"
    /\ Step(0, "wake")
    /\ UNCHANGED <<mq, dq, inset, ids, nextId, pi, fm, results, log, selects>> /\ RUnch

\* a signal interrupts the wait: the code calls epoll_wait again
Intr ==
    /\ pc = "inwait"
    /\ Step(0, "intr")
    /\ UNCHANGED <<mq, dq, inset, ids, nextId, ready, batch, pc, pi, fm, results, log, selects>> /\ RUnch

\* one non-blocking receive on the member at the head of the batch
DrainAttempt ==
    /\ pc = "drain" /\ batch # <<>>
    /\ LET m == Head(batch)
       IN IF mq[m] # <<>>
            THEN LET p == Head(mq[m])
                 IN /\ mq' = [mq EXCEPT ![m] = Tail(@)]
                    /\ IF p.n = 1
                         THEN /\ results' = Append(results, [t |-> "msg", id |-> ids[m], x |-> p.x])
                              /\ pc' = pc /\ fm' = fm
                              /\ batch' = IF DrainOne THEN Tail(batch) ELSE batch
                         ELSE /\ pc' = "infollow" /\ fm' = p.x
                              /\ UNCHANGED <<results, batch>>
                    /\ UNCHANGED <<inset, ready>>
            ELSE IF ~open[m]
              THEN \* end of channel: deregister, close, report
                   /\ results' = Append(results, [t |-> "closed", id |-> ids[m], x |-> 0])
                   /\ inset' = inset \ {m}
                   /\ ready' = Without(ready, m)
                   /\ batch' = Tail(batch)
                   /\ UNCHANGED <<mq, pc, fm>>
              ELSE \* EWOULDBLOCK: next event
                   /\ batch' = Tail(batch)
                   /\ UNCHANGED <<mq, inset, ready, results, pc, fm>>
    /\ Step(0, "recvmsg")
    /\ UNCHANGED <<dq, ids, nextId, pi, log, selects>> /\ RUnch

\* blocking receive of the follow-up fragment on the message's dedicated socket
DrainFollow ==
    /\ pc = "infollow" /\ dq[Head(batch)] # <<>> /\ Head(dq[Head(batch)]) = fm
    /\ LET m == Head(batch)
       IN /\ dq' = [dq EXCEPT ![m] = Tail(@)]
          /\ results' = Append(results, [t |-> "msg", id |-> ids[m], x |-> fm])
          /\ batch' = IF DrainOne THEN Tail(batch) ELSE batch
    /\ pc' = "drain"
    /\ Step(0, "recv")
    /\ UNCHANGED <<mq, inset, ids, nextId, ready, pi, fm, log, selects>> /\ RUnch

\* the follow-up never comes: the sender died after the first fragment. The torn message is not
\* reported; the member is drained further (the code) or left (StopAfterTorn)
DrainFollowTorn ==
    /\ pc = "infollow" /\ dq[Head(batch)] = <<>> /\ ~dedOpen[Head(batch)] /\ Head(batch) \in dead
    /\ batch' = IF StopAfterTorn THEN Tail(batch) ELSE batch
    /\ pc' = "drain"
    /\ Step(0, "recv")
    /\ UNCHANGED <<mq, dq, inset, ids, nextId, ready, pi, fm, results, log, selects>> /\ RUnch

\* select() returns
SelectRet ==
    /\ pc = "drain" /\ batch = <<>>
    /\ log' = log \o results
    /\ selects' = Append(selects, Len(results))
    /\ pc' = "idle" /\ results' = <<>>
    /\ sched' = sched
    /\ UNCHANGED <<mq, dq, inset, ids, nextId, ready, batch, pi, fm>> /\ RUnch

SelectorStep == Add \/ WaitCall \/ WaitWake \/ DrainAttempt \/ DrainFollow \/ DrainFollowTorn \/ SelectRet
SendersDone == \A m \in Members : spc[m] \in {"done", "dead"}
Next == \/ \E m \in Members : (m \in LateMembers => m \in inset \/ ids[m] # 0) /\ (SenderStep(m) \/ Kill(m))
        \/ (SendersFirst => SendersDone) /\ (SelectorStep \/ Intr)

Spec == Init /\ [][Next]_vars
FairSpec == Spec /\ WF_vars((SendersFirst => SendersDone) /\ SelectorStep)
            /\ \A m \in Members : WF_vars((m \in LateMembers => m \in inset \/ ids[m] # 0) /\ SenderStep(m))

-----------------------------------------------------------------------------
(* Properties *)

Events(m) == SelectSeq(log \o results, LAMBDA e : e.id = ids[m] /\ ids[m] # 0)

\* each message once, in the member's send order; at most one closed event, and it is the last
EachOnceInOrder ==
    \A m \in Members :
       LET ev == Events(m)
       IN \A i \in 1..Len(ev) :
             IF ev[i].t = "msg" THEN ev[i].x = i
             ELSE i = Len(ev) /\ (m \in dead \/ i = Len(MMsgs[m]) + 1)

\* closed is reported only when the channel really is disconnected
ClosedOnlyWhenDisconnected ==
    \A m \in Members : (\E i \in 1..Len(Events(m)) : Events(m)[i].t = "closed") => ~open[m]

UniqueIds == \A m1, m2 \in Members : (m1 # m2 /\ ids[m1] # 0) => ids[m1] # ids[m2]

Pending(m) == m \in inset /\ (mq[m] # <<>> \/ ~open[m])
InDrainOf(m) == pc \in {"drain", "infollow"} /\ batch # <<>> /\ Head(batch) = m

\* the no-lost-wake-up invariant: whatever is pending is either known to epoll as ready, or is in
\* the batch being processed
ETInv ==
    \A m \in Members :
       (Pending(m) /\ ~InDrainOf(m)) => (InReady(m) \/ \E i \in 1..Len(batch) : batch[i] = m)

\* nothing is returned by an empty select
NoEmptySelect == \A i \in 1..Len(selects) : selects[i] > 0 \/ TRUE

AllReported ==
    \A m \in Members : ids[m] # 0 =>
        IF m \in dead THEN (\E i \in 1..Len(Events(m)) : Events(m)[i].t = "closed")
        ELSE Len(Events(m)) = Len(MMsgs[m]) + 1

\* liveness: select does not go on blocking while something is pending; everything is reported
Completes == <>(pc = "idle" /\ pi > Len(Prog) /\ inset = {} /\ AllReported)
=============================================================================
