----------------------------- MODULE AsyncTrace -----------------------------
(***************************************************************************)
(* Trace validation for AsyncRouter.tla: what consumers of IpcStreams see  *)
(* (items, Pending, wake-ups, end of stream), what senders did, and the    *)
(* routing thread's hook events, recorded from free-running executions on  *)
(* the `async` build, replayed against the model's stream-level state.     *)
(* Sends and sender drops are intervals (call event .. return event); an   *)
(* item or an end-of-stream that needs one of them places it.              *)
(***************************************************************************)
EXTENDS AsyncRouter, Json, IOUtils, TLCExt

VARIABLES l, pendSend, pendDrop, lost

tvars == <<vars, l, pendSend, pendDrop, lost>>
Rec == ndJsonDeserialize(IOEnv.TRACE)
E == Rec[l]
IsEv(k) == l <= Len(Rec) /\ Rec[l].ev = k /\ l' = l + 1

TraceInit == Init /\ l = 1 /\ pendSend = [s \in Streams |-> FALSE] /\ pendDrop = {} /\ lost = 0

Keep == UNCHANGED <<cq, st, addq, wakes, tpc, buf, ended, rt, batch>>

HScenario ==
    /\ IsEv("h.scenario")
    /\ sent' = [s \in Streams |-> 0] /\ open' = [s \in Streams |-> TRUE]
    /\ yielded' = [s \in Streams |-> <<>>] /\ fin' = [s \in Streams |-> FALSE]
    /\ parked' = {} /\ wokenUp' = {}
    /\ pendSend' = [s \in Streams |-> FALSE] /\ pendDrop' = {} /\ lost' = lost
    /\ Keep

HSend ==
    /\ IsEv("h.send") /\ ~pendSend[E.s]
    /\ pendSend' = [pendSend EXCEPT ![E.s] = TRUE]
    /\ UNCHANGED <<vars, pendDrop, lost>>

HSent ==
    /\ IsEv("h.sent")
    /\ IF pendSend[E.s] THEN sent' = [sent EXCEPT ![E.s] = @ + 1] ELSE sent' = sent
    /\ pendSend' = [pendSend EXCEPT ![E.s] = FALSE]
    /\ UNCHANGED <<open, yielded, fin, parked, wokenUp, pendDrop, lost>> /\ Keep

HSenderDrop ==
    /\ IsEv("h.senderdrop") /\ pendDrop' = pendDrop \cup {E.s}
    /\ UNCHANGED <<vars, pendSend, lost>>

HSenderDropped ==
    /\ IsEv("h.senderdropped")
    /\ open' = [open EXCEPT ![E.s] = FALSE] /\ pendDrop' = pendDrop \ {E.s}
    /\ UNCHANGED <<sent, yielded, fin, parked, wokenUp, pendSend, lost>> /\ Keep

\* the stream yields an item: the next one in send order, and one that was sent (C20)
HItem ==
    /\ IsEv("h.item") /\ ~fin[E.s]
    /\ E.x = Len(yielded[E.s]) + 1
    /\ IF E.x <= sent[E.s] THEN UNCHANGED <<sent, pendSend>>
       ELSE /\ pendSend[E.s] /\ E.x = sent[E.s] + 1
            /\ sent' = [sent EXCEPT ![E.s] = @ + 1] /\ pendSend' = [pendSend EXCEPT ![E.s] = FALSE]
    /\ yielded' = [yielded EXCEPT ![E.s] = Append(@, E.x)]
    /\ parked' = parked \ {E.s} /\ wokenUp' = wokenUp \ {E.s}
    /\ UNCHANGED <<open, fin, pendDrop, lost>> /\ Keep

\* end of stream: the last sender is gone and every message sent has been yielded
HEnd ==
    /\ IsEv("h.end")
    /\ (~open[E.s] \/ E.s \in pendDrop)
    /\ ~pendSend[E.s] /\ Len(yielded[E.s]) = sent[E.s]
    /\ open' = [open EXCEPT ![E.s] = FALSE] /\ pendDrop' = pendDrop \ {E.s}
    /\ fin' = [fin EXCEPT ![E.s] = TRUE]
    /\ parked' = parked \ {E.s} /\ wokenUp' = wokenUp \ {E.s}
    /\ UNCHANGED <<sent, yielded, pendSend, lost>> /\ Keep

\* the consumer drops its stream while the sender lives on: nothing more is yielded there, nothing is owed
HAbandon ==
    /\ IsEv("h.abandon")
    /\ fin' = [fin EXCEPT ![E.s] = TRUE]
    /\ parked' = parked \ {E.s} /\ wokenUp' = wokenUp \ {E.s}
    /\ UNCHANGED <<sent, open, yielded, pendSend, pendDrop, lost>> /\ Keep

HPending ==
    /\ IsEv("h.pending") /\ parked' = parked \cup {E.s} /\ wokenUp' = wokenUp \ {E.s}
    /\ UNCHANGED <<sent, open, yielded, fin, pendSend, pendDrop, lost>> /\ Keep

HWoken ==
    /\ IsEv("h.woken") /\ wokenUp' = wokenUp \cup {E.s}
    /\ UNCHANGED <<sent, open, yielded, fin, parked, pendSend, pendDrop, lost>> /\ Keep

\* routing thread: a message for an id it has no sender for is dropped on the floor; only the
\* wake-up channel (the first receiver it added, id 0) may be such an id
AMsg ==
    /\ IsEv("async.msg")
    /\ lost' = IF E.known = 0 /\ E.id # 0 THEN lost + 1 ELSE lost
    /\ UNCHANGED <<vars, pendSend, pendDrop>>

Ignore ==
    /\ l <= Len(Rec)
    /\ Rec[l].ev \in {"async.closed", "async.install", "async.to_stream.queued", "h.tostream", "h.tostream.done",
                      "h.scenario.end"}
    /\ l' = l + 1
    /\ UNCHANGED <<vars, pendSend, pendDrop, lost>>

TraceNext == HScenario \/ HSend \/ HSent \/ HSenderDrop \/ HSenderDropped \/ HItem \/ HEnd \/ HAbandon \/ HPending
             \/ HWoken \/ AMsg \/ Ignore
TraceSpec == TraceInit /\ [][TraceNext]_tvars

TraceAccepted ==
    LET d == TLCGet("stats").diameter IN
    IF d - 1 = Len(Rec) THEN TRUE
    ELSE Print(<<"@@REJECT", d, IF d <= Len(Rec) THEN Rec[d] ELSE "eof">>, FALSE)

NothingLost == lost = 0
=============================================================================
