-------------------------------- MODULE Fifo --------------------------------
(***************************************************************************)
(* One channel seen from outside (C02): concurrent senders (handles,       *)
(* clones, threads, processes) and one receiver.  A send is an interval    *)
(* [call, return]; somewhere inside it the message is linearised (appended *)
(* to the channel's queue: for the Unix transport the sendmsg of the       *)
(* single packet or first fragment on the shared socket).  The receiver    *)
(* takes messages from the head.                                           *)
(*                                                                         *)
(* The observable history (calls, returns, deliveries) is kept in history  *)
(* variables; the operators over them - Preds, MayDeliver, MayDisconnect - *)
(* are what FifoTrace.tla evaluates on every recorded event of a real run. *)
(* TLC checks here that they are NECESSARY conditions of this design, so   *)
(* that a run of a correct implementation is never rejected.               *)
(***************************************************************************)
EXTENDS Naturals, Sequences, FiniteSets

CONSTANTS Senders,      \* sender ids
          MaxJ,         \* most messages per sender
          NMsgs,        \* NMsgs[s]: how many messages sender s sends (in program order)
          Discipline    \* "fifo" (the design) | "lifo" (wrong on purpose: the receiver is handed the newest message)

AllMsgs == {m \in Senders \X (1..MaxJ) : m[2] <= NMsgs[m[1]]}

VARIABLES pc,          \* pc[m] \in "idle" | "called" | "lin" | "ret"
          open,        \* open[s]: sender s still holds its handle
          queue,       \* the channel
          delivered,   \* sequence of messages handed to the receiver
          preds,       \* preds[m]: messages whose send had returned when m's send was called and that
                       \*           had not been delivered yet (history)
          disc         \* the receiver has been told 'disconnected'

vars == <<pc, open, queue, delivered, preds, disc>>

Range(q) == {q[i] : i \in 1..Len(q)}

Init ==
    /\ pc = [m \in AllMsgs |-> "idle"] /\ open = [s \in Senders |-> TRUE]
    /\ queue = <<>> /\ delivered = <<>> /\ preds = [m \in AllMsgs |-> {}] /\ disc = FALSE

\* ---- operators over the observable history (shared with FifoTrace.tla)
Returned(p) == {m \in DOMAIN p : p[m] = "ret"}
PredsAt(p, d) == Returned(p) \ Range(d)
\* m may be delivered now: it was called, is new, and everything that had returned before m began is out already
MayDeliver(m, p, d, pr) == /\ p[m] # "idle" /\ m \notin Range(d) /\ pr[m] \subseteq Range(d)
\* 'disconnected' may be reported: no send in progress or to come, everything accepted has been delivered
MayDisconnect(p, o, d) == /\ \A s \in DOMAIN o : ~o[s]
                          /\ \A m \in DOMAIN p : p[m] \in {"idle", "ret"} /\ (p[m] = "ret" => m \in Range(d))

\* ---- the design
Call(m) ==
    /\ pc[m] = "idle" /\ open[m[1]]
    /\ \A j \in 1..(m[2] - 1) : pc[<<m[1], j>>] = "ret"
    /\ pc' = [pc EXCEPT ![m] = "called"]
    /\ preds' = [preds EXCEPT ![m] = PredsAt(pc, delivered)]
    /\ UNCHANGED <<open, queue, delivered, disc>>

Lin(m) ==
    /\ pc[m] = "called" /\ pc' = [pc EXCEPT ![m] = "lin"]
    /\ queue' = Append(queue, m)
    /\ UNCHANGED <<open, delivered, preds, disc>>

Ret(m) ==
    /\ pc[m] = "lin" /\ pc' = [pc EXCEPT ![m] = "ret"]
    /\ UNCHANGED <<open, queue, delivered, preds, disc>>

DropHandle(s) ==
    /\ open[s] /\ \A j \in 1..NMsgs[s] : pc[<<s, j>>] \in {"idle", "ret"}
    /\ open' = [open EXCEPT ![s] = FALSE]
    /\ UNCHANGED <<pc, queue, delivered, preds, disc>>

Deliver ==
    /\ queue # <<>> /\ ~disc
    /\ IF Discipline = "fifo"
       THEN delivered' = Append(delivered, Head(queue)) /\ queue' = Tail(queue)
       ELSE delivered' = Append(delivered, queue[Len(queue)]) /\ queue' = SubSeq(queue, 1, Len(queue) - 1)
    /\ UNCHANGED <<pc, open, preds, disc>>

Disconnect ==
    /\ queue = <<>> /\ ~disc /\ \A s \in Senders : ~open[s]
    /\ disc' = TRUE
    /\ UNCHANGED <<pc, open, queue, delivered, preds>>

Next == \/ \E m \in AllMsgs : Call(m) \/ Lin(m) \/ Ret(m)
        \/ \E s \in Senders : DropHandle(s)
        \/ Deliver \/ Disconnect
Spec == Init /\ [][Next]_vars

\* ---- the trace rules are necessary conditions of the design
DeliverRule == [][\A m \in AllMsgs : (delivered' # delivered /\ delivered'[Len(delivered')] = m)
                                       => MayDeliver(m, pc, delivered, preds)]_vars
DisconnectRule == [][(disc' /\ ~disc) => MayDisconnect(pc, open, delivered)]_vars
\* and they imply what C02 says: a send that returned before another began is delivered first
Pos(m) == CHOOSE i \in 1..Len(delivered) : delivered[i] = m
RealTimeFIFO ==
    \A x, y \in AllMsgs :
        (x \in preds[y] /\ y \in Range(delivered)) => (x \in Range(delivered) /\ Pos(x) < Pos(y))
OnceEach == \A i, j \in 1..Len(delivered) : delivered[i] = delivered[j] => i = j
=============================================================================
