--------------------------- MODULE ResourcesTrace ---------------------------
(* Drives the Resources ledger with a recorded execution (hook events of src/verif.rs). *)
EXTENDS Resources, Json, IOUtils, TLCExt

VARIABLE l
Rec == ndJsonDeserialize(IOEnv.TRACE)
E == Rec[l]
Is(k) == l <= Len(Rec) /\ Rec[l].ev = k /\ l' = l + 1

TraceInit == RInit /\ l = 1

TraceNext ==
    \/ Is("fd.new") /\ FdNew(E.p, E.fd, E.cloexec, E.how)
    \/ Is("close.call") /\ Close(E.p, E.fd)
    \/ Is("close.ret") /\ CloseRet(E.p, E.res)
    \/ Is("mmap.ret") /\ (IF E.ok = 1 THEN Mmap(E.p, E.addr, E.len) ELSE UNCHANGED rvars)
    \/ Is("munmap.call") /\ Munmap(E.p, E.addr, E.len)
    \/ Is("malloc") /\ Malloc(E.p, E.addr)
    \/ Is("free") /\ Free(E.p, E.addr)
    \/ Is("slice") /\ Slice(E.p, E.addr, E.len)
    \/ Is("quiesce") /\ Quiescent(E.p, E.fd, E.len)
    \/ Is("exit") /\ Exit(E.p)

TraceSpec == TraceInit /\ [][TraceNext]_<<rvars, l>>

TraceAccepted ==
    LET d == TLCGet("stats").diameter IN
    IF d - 1 = Len(Rec) THEN TRUE
    ELSE Print(<<"@@REJECT", d, IF d <= Len(Rec) THEN Rec[d] ELSE "eof">>, FALSE)

\* reported as an invariant so that TLC shows the state (and with it the trace position) of the
\* first broken rule
LedgerClean == Clean
=============================================================================
