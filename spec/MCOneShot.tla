----------------------------- MODULE MCOneShot -----------------------------
EXTENDS OneShot, Json
\* a behaviour is exported when it cannot be extended (operation budget used up or nothing enabled)
Export == (Finished \/ ~ENABLED Next) => PrintT("@@" \o ToJson(log))
=============================================================================
