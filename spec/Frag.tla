------------------------------- MODULE Frag -------------------------------
(***************************************************************************)
(* Fragmentation and reassembly of ONE message on the Unix transport       *)
(* (src/platform/unix/mod.rs: OsIpcSender::send and recv()).               *)
(*                                                                         *)
(* One action per system call of the code.  Payload bytes are abstracted   *)
(* to extents [lo, hi) of the sender's buffer, descriptors to counts.      *)
(* The transmission system calls may fail with ENOBUFS at any of the first *)
(* MaxFaultAttempts attempts (fault history fh).                           *)
(*                                                                         *)
(* Decides (model level): C01 (fidelity at every length), C13 (ENOBUFS     *)
(* absorbed or reported), C15 (over-full messages refused), C18a (receive  *)
(* buffer discipline).                                                     *)
(***************************************************************************)
EXTENDS Naturals, Sequences, FiniteSets, TLC

CONSTANTS
    SysSendBuf,        \* SYSTEM_SENDBUF_SIZE (SO_SNDBUF of a fresh socketpair, or the override)
    Reserved, Hdr, Align, \* RESERVED_SIZE (32), size of the length header (8), alignment (8):
                       \* fitted by the driver to what the running code's fragment_size() and
                       \* first_fragment_size() report, so that a harmless change of these
                       \* incidental constants is followed by the model
    MinRetry,          \* 2000: below this an ENOBUFS is not retried
    CmsgCap,           \* MAX_FDS_IN_CMSG: descriptors the receiver's control buffer holds
    KernelMaxFds,      \* SCM_MAX_FD (253): sendmsg fails with EINVAL above it   (premise K3)
    Lens,              \* message lengths explored
    Atts,              \* numbers of user attachments explored
    MaxFaultAttempts,  \* ENOBUFS may hit attempts 1..MaxFaultAttempts
    HardAt,            \* 0: never; k: transmission attempt number k fails with an error that is not retried
                       \* (EINTR, EIO, ...): the send gives up there, whatever its size
    Variant            \* "code" = the implementation; other values are deliberately wrong
                       \* designs used to show that the invariants are not vacuous

\* The code's arithmetic, transcribed: fragment_size(), first_fragment_size().
FragSize(sb)      == sb - Reserved
FirstFragSize(sb) == ((FragSize(sb) - Hdr) \div Align) * Align

MaxFrag == FirstFragSize(SysSendBuf)      \* get_max_fragment_size()

Min(a, b) == IF a < b THEN a ELSE b

\* fn downsize(): halve; make certain to end up below what was just tried.
Downsize(sb, sent) == LET h == sb \div 2 IN IF h >= sent THEN sent \div 2 ELSE h

VARIABLES
    len, natt,         \* the message: payload length, number of user attachments
    sb,                \* sender's current send-buffer estimate
    pos,               \* byte_position
    att,               \* transmission attempts made so far
    fh,                \* fault history: fh[i] = TRUE iff attempt i failed with ENOBUFS
    spc,               \* sender pc: start | mkded | frag | ok | err
    ws,                \* shared socket: sequence of first packets [total, lo, hi, nfds]
    wd,                \* dedicated socket: sequence of follow-up packets [lo, hi]
    dedOpen,           \* the sender still holds the dedicated sending end
    rpc,               \* receiver pc: first | follow | ok | err | panic | wrongsock
    rtotal, rlen,      \* header value received; bytes in the receive buffer (its len())
    rcap,              \* capacity() of the receive buffer
    rfds,              \* user attachments handed to the caller
    rok,               \* every chunk landed where it belongs, untruncated
    trunc              \* some packet was larger than the buffer offered for it

vars == <<len, natt, sb, pos, att, fh, spc, ws, wd, dedOpen,
          rpc, rtotal, rlen, rcap, rfds, rok, trunc>>

Init ==
    /\ len \in Lens /\ natt \in Atts
    /\ sb = SysSendBuf /\ pos = 0 /\ att = 0 /\ fh = <<>>
    /\ spc = "start"
    /\ ws = <<>> /\ wd = <<>> /\ dedOpen = FALSE
    /\ rpc = "first" /\ rtotal = 0 /\ rlen = 0 /\ rcap = 0 /\ rfds = 0
    /\ rok = TRUE /\ trunc = FALSE

-----------------------------------------------------------------------------
(* Sender *)

\* Whether this attempt is hit by ENOBUFS: free for the first MaxFaultAttempts attempts.
IsHard == HardAt # 0 /\ att + 1 = HardAt
FaultChoices == IF IsHard THEN {TRUE} ELSE IF att < MaxFaultAttempts THEN {TRUE, FALSE} ELSE {FALSE}

\* The refusal the property demands (absent in Variant "nocap", which is the code before the fix).
Overfull(extra) == Variant # "nocap" /\ natt + extra > CmsgCap

SUnch == UNCHANGED <<len, natt, rpc, rtotal, rlen, rcap, rfds, rok, trunc>>

\* Every action that stands for a system call exists in a parameterised form `XAt(...)` whose
\* parameters are what a recorded trace supplies (sizes, whether the call failed, whether the code
\* gave up); the design `X` instantiates them with the code's arithmetic.  FragTrace.tla replays
\* recorded executions through the `XAt` forms, so both share one definition of the effect.

\* if data.len() <= max_fragment_size: send_first_fragment(all of it)
TrySingleAt(f, giveup) ==
    /\ spc = "start"
    /\ att' = att + 1 /\ fh' = Append(fh, f)
    /\ IF f
         THEN \* ENOBUFS: downsize and fall through to fragmentation, or give up
              /\ IF giveup
                   THEN sb' = sb /\ spc' = "err"
                   ELSE sb' = Downsize(sb, len) /\ spc' = "mkded"
              /\ UNCHANGED <<ws, pos, wd, dedOpen>>
         ELSE IF natt > KernelMaxFds
                THEN spc' = "err" /\ UNCHANGED <<sb, ws, pos, wd, dedOpen>>   \* EINVAL
                ELSE /\ ws' = Append(ws, [total |-> len, lo |-> 0, hi |-> len, nfds |-> natt])
                     /\ spc' = "ok"
                     /\ UNCHANGED <<sb, pos, wd, dedOpen>>
    /\ SUnch

Refuse ==   \* the descriptor-count check (the C15 repair)
    /\ \/ spc = "start" /\ len <= MaxFrag /\ Overfull(0)
       \/ spc = "mkded" /\ Overfull(1)
    /\ spc' = "err"
    /\ UNCHANGED <<sb, pos, att, fh, ws, wd, dedOpen>> /\ SUnch

TrySingle ==
    /\ len <= MaxFrag /\ ~Overfull(0)
    /\ \E f \in FaultChoices : TrySingleAt(f, IsHard \/ ~(len > MinRetry))

TooBig ==
    /\ spc = "start" /\ len > MaxFrag
    /\ spc' = "mkded"
    /\ UNCHANGED <<sb, pos, att, fh, ws, wd, dedOpen>> /\ SUnch

\* let (dedicated_tx, dedicated_rx) = channel()?;  fds.push(dedicated_rx)
MkDedicated ==
    /\ spc = "mkded" /\ ~Overfull(1)
    /\ spc' = "frag" /\ dedOpen' = TRUE
    /\ UNCHANGED <<sb, pos, att, fh, ws, wd>> /\ SUnch

\* one iteration of `while byte_position < data.len()`: bytes [pos, end) are offered
SendFragmentAt(end, f, giveup) ==
    /\ spc = "frag" /\ pos < len /\ end > pos
    /\ att' = att + 1 /\ fh' = Append(fh, f)
    /\ IF f
         THEN /\ IF giveup
                   THEN sb' = sb /\ spc' = "err" /\ dedOpen' = FALSE
                   ELSE sb' = Downsize(sb, end - pos) /\ spc' = "frag" /\ dedOpen' = dedOpen
              /\ UNCHANGED <<pos, ws, wd>>
         ELSE IF pos = 0 /\ natt + 1 > KernelMaxFds
                THEN /\ spc' = "err" /\ dedOpen' = FALSE            \* EINVAL
                     /\ UNCHANGED <<sb, pos, ws, wd>>
                ELSE /\ IF pos = 0
                          THEN /\ ws' = Append(ws, [total |-> len, lo |-> 0, hi |-> end,
                                                   nfds |-> natt + 1])
                               /\ wd' = wd
                          ELSE /\ wd' = Append(wd, [lo |-> pos, hi |-> end])
                               /\ ws' = ws
                     /\ pos' = end
                     /\ UNCHANGED <<sb, spc, dedOpen>>
    /\ SUnch

ModelEnd == IF pos = 0
              THEN (IF Variant = "firstfull" THEN FragSize(sb) ELSE FirstFragSize(sb))
              ELSE Min(pos + FragSize(sb), len)

SendFragment ==
    \E f \in FaultChoices : SendFragmentAt(ModelEnd, f, IsHard \/ ~(ModelEnd - pos > MinRetry))

\* loop exit; dedicated_tx and dedicated_rx are dropped
SendDone ==
    /\ spc = "frag" /\ pos >= len
    /\ spc' = "ok" /\ dedOpen' = FALSE
    /\ UNCHANGED <<sb, pos, att, fh, ws, wd>> /\ SUnch

-----------------------------------------------------------------------------
(* Receiver *)

RUnch == UNCHANGED <<len, natt, sb, pos, att, fh, spc, dedOpen>>

\* recvmsg on the channel's socket: data buffer of `cap` bytes, control buffer for `fdcap` fds
RecvFirstAt(cap, fdcap) ==
    /\ rpc = "first" /\ ws # <<>>
    /\ LET p      == Head(ws)
           got    == Min(p.hi - p.lo, cap)               \* K1: excess is cut off silently
           fdsgot == Min(p.nfds, fdcap)                  \* K2: excess descriptors are dropped
       IN /\ ws' = Tail(ws)
          /\ trunc' = (trunc \/ got < p.hi - p.lo \/ fdsgot < p.nfds)
          /\ rtotal' = p.total /\ rlen' = got
          /\ rok' = (rok /\ p.lo = 0 /\ got = p.hi - p.lo)
          /\ IF p.total = got
               THEN /\ rpc' = "ok" /\ rfds' = fdsgot /\ rcap' = cap           \* fast path
               ELSE IF fdsgot = 0
                      THEN rpc' = "panic" /\ rfds' = 0 /\ rcap' = cap         \* channels.pop().unwrap()
                      ELSE IF fdsgot < p.nfds
                             \* the dedicated receiver was the LAST descriptor: it is gone and the
                             \* follow-ups are awaited on some user attachment instead
                             THEN rpc' = "wrongsock" /\ rfds' = fdsgot - 1 /\ rcap' = cap
                             ELSE /\ rpc' = "follow" /\ rfds' = fdsgot - 1
                                  \* reserve_exact(total_size - len)
                                  /\ rcap' = IF p.total > cap THEN p.total ELSE cap
    /\ UNCHANGED wd /\ RUnch

RecvFirst == RecvFirstAt(MaxFrag, CmsgCap)

\* one iteration of `while main_data_buffer.len() < total_size`, offering `window` bytes
RecvFollowAt(window) ==
    /\ rpc = "follow" /\ rlen < rtotal
    /\ \/ /\ wd # <<>>
          /\ LET d == Head(wd)
                 r == Min(d.hi - d.lo, window)
             IN /\ wd' = Tail(wd)
                /\ trunc' = (trunc \/ r < d.hi - d.lo)
                /\ rok' = (rok /\ d.lo = rlen /\ r = d.hi - d.lo)
                /\ rlen' = rlen + r
                /\ UNCHANGED <<rpc, rtotal, rcap, rfds>>
       \/ /\ wd = <<>> /\ ~dedOpen                              \* EOF on the dedicated socket
          /\ rpc' = "err"
          /\ UNCHANGED <<wd, trunc, rok, rlen, rtotal, rcap, rfds>>
    /\ UNCHANGED ws /\ RUnch

ModelWindow ==
    LET win == (IF Variant = "recvwin" THEN FirstFragSize(SysSendBuf) ELSE FragSize(SysSendBuf))
    IN Min(rlen + win, rtotal) - rlen

RecvFollow == RecvFollowAt(ModelWindow)

RecvDone ==
    /\ rpc = "follow" /\ rlen >= rtotal
    /\ rpc' = "ok"
    /\ UNCHANGED <<ws, wd, rtotal, rlen, rcap, rfds, rok, trunc>> /\ RUnch

SenderNext   == Refuse \/ TrySingle \/ TooBig \/ MkDedicated \/ SendFragment \/ SendDone
ReceiverNext == RecvFirst \/ RecvFollow \/ RecvDone
Next == SenderNext \/ ReceiverNext

Spec == Init /\ [][Next]_vars /\ WF_vars(SenderNext) /\ WF_vars(ReceiverNext)

-----------------------------------------------------------------------------
(* Properties *)

SenderDone   == spc \in {"ok", "err"}
ReceiverIdle == rpc = "first" /\ ws = <<>>
Terminal     == SenderDone /\ (rpc \in {"ok", "err", "panic", "wrongsock"} \/ ReceiverIdle)

TypeOK ==
    /\ spc \in {"start", "mkded", "frag", "ok", "err"}
    /\ rpc \in {"first", "follow", "ok", "err", "panic", "wrongsock"}
    /\ pos \in 0..len /\ Len(fh) = att

\* C13 "every retry it makes is one the receiver can accept" / C01: no silent truncation (K1, K2).
RetryAcceptable == ~trunc

\* C01/C13: whatever the receiver presents as a complete message is the message.
Intact == rpc = "ok" => rok /\ rlen = len /\ rtotal = len /\ rfds = natt

\* C13/C15: a send that reported success is received, completely.
AcceptedArrives == (spc = "ok" /\ Terminal) => rpc = "ok"

\* C15: never a panic or a wait on the wrong socket, whatever was attached.
NoMangle == rpc \notin {"panic", "wrongsock"}

\* C15: an over-full message is refused, and nothing of it was put on the wire.
OverfullRefused ==
    (natt > CmsgCap \/ (natt + 1 > CmsgCap /\ len > MaxFrag)) => spc # "ok" /\ ws = <<>>

\* C01: without transmission faults an acceptable message is accepted.
NoFaultNoError ==
    (spc = "err" /\ \A i \in 1..Len(fh) : ~fh[i])
        => (natt > CmsgCap \/ (natt + 1 > CmsgCap /\ len > MaxFrag))

\* C13: attachments travel with exactly one transmitted first packet.
AttachOnce == Len(ws) <= 1 /\ (rpc # "first" => ws = <<>>)

\* C18a: the receive buffer's len() never exceeds its capacity(); what is returned was written.
BufferSafe == (rcap > 0 => rlen <= rcap) /\ (rpc = "ok" => rlen = rtotal)

\* C13 liveness: downsizing makes progress; the send returns.
SendTerminates == <>SenderDone
ReceiveTerminates == <>Terminal
=============================================================================
