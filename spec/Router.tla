------------------------------- MODULE Router -------------------------------
(***************************************************************************)
(* src/router.rs: RouterProxy (mutex, crossbeam message queue, wake-up     *)
(* channel, shutdown flag) and the router thread (select, dispatch).       *)
(*                                                                         *)
(* Proxy threads run programs of add_route(r) / shutdown / drop-proxy;     *)
(* every route r has one sender that sends RMsgs[r] messages and then      *)
(* drops its handle.  The receiver set is abstracted to what C06 gives:    *)
(* a select returns, for some non-empty set of members with something      *)
(* pending, all their queued messages in order and then "closed" if the    *)
(* member is disconnected.  Member 0 is the wake-up channel.               *)
(*                                                                         *)
(* Decides (model level) C07 and C17.                                      *)
(***************************************************************************)
EXTENDS Naturals, Sequences, FiniteSets, TLC

CONSTANTS
    Routes,          \* route ids (1..n)
    RMsgs,           \* RMsgs[r]: number of messages the sender of route r sends
    Proxies,         \* proxy thread ids
    PProg,           \* PProg[p]: sequence of [op |-> "add"|"shutdown"|"dropproxy", r |-> route]
    BreakInnerOnly,  \* TRUE: on Shutdown the router only leaves the dispatch loop of the current
                     \* batch and goes on selecting, handlers stay alive (the code as found)
    PanicOnWakeClosed\* TRUE: closure of the wake-up channel is looked up in the handler table and
                     \* unwrapped (the code as found); FALSE: it stops the router cleanly

VARIABLES
    lock,        \* 0 or the proxy thread holding the mutex
    flag,        \* comm.shutdown
    msgq,        \* crossbeam queue: [t |-> "add", r] / [t |-> "shutdown", p]
    wakes,       \* wake-up messages queued on the wake-up channel
    proxyAlive,  \* the RouterProxy (its senders) exists
    ppc, pi,     \* proxy threads: pc and position in program
    rq,          \* rq[r]: messages queued on route r's channel (sequence of indices)
    sent,        \* sent[r]: messages sent so far
    ropen,       \* ropen[r]: the route's sender handle exists
    where,       \* where[r]: "prog" | "msgq" | "set" | "gone"  - where the route's receiver+handler is
    rt,          \* router thread: "select" | "batch" | "taking" | "exited" | "panicked"
    batch,       \* events still to dispatch: [t |-> "wake"|"msg"|"closed"|"wakeclosed", r, x]
    stopping,    \* router has taken Shutdown / seen the proxy go and is to stop after this batch
    called,      \* log of handler calls <<r, x>>
    dropped,     \* log of handler drops (route ids)
    returned     \* proxies whose shutdown() has returned

vars == <<lock, flag, msgq, wakes, proxyAlive, ppc, pi, rq, sent, ropen, where, rt, batch, stopping,
          called, dropped, returned>>

Op(p) == PProg[p][pi[p]]
HasOp(p) == pi[p] <= Len(PProg[p])

Init ==
    /\ lock = 0 /\ flag = FALSE /\ msgq = <<>> /\ wakes = 0 /\ proxyAlive = TRUE
    /\ ppc = [p \in Proxies |-> "idle"] /\ pi = [p \in Proxies |-> 1]
    /\ rq = [r \in Routes |-> <<>>] /\ sent = [r \in Routes |-> 0] /\ ropen = [r \in Routes |-> TRUE]
    /\ where = [r \in Routes |-> "prog"]
    /\ rt = "select" /\ batch = <<>> /\ stopping = FALSE
    /\ called = <<>> /\ dropped = <<>> /\ returned = {}

PUnch == UNCHANGED <<rq, sent, ropen, rt, batch, stopping, called, returned>>

NextOp(p) == /\ pi' = [pi EXCEPT ![p] = @ + 1] /\ ppc' = [ppc EXCEPT ![p] = "idle"]

-----------------------------------------------------------------------------
(* add_route *)

AddLock(p) ==
    /\ ppc[p] = "idle" /\ HasOp(p) /\ Op(p).op = "add" /\ lock = 0 /\ proxyAlive
    /\ lock' = p /\ ppc' = [ppc EXCEPT ![p] = "add.locked"]
    /\ UNCHANGED <<flag, msgq, wakes, proxyAlive, pi, where, dropped>> /\ PUnch

\* if comm.shutdown { return }  -- the receiver and the callback are dropped, never invoked
AddBail(p) ==
    /\ ppc[p] = "add.locked" /\ flag
    /\ where' = [where EXCEPT ![Op(p).r] = "gone"]
    /\ dropped' = Append(dropped, Op(p).r)
    /\ lock' = 0 /\ NextOp(p)
    /\ UNCHANGED <<flag, msgq, wakes, proxyAlive>> /\ PUnch

AddMsg(p) ==
    /\ ppc[p] = "add.locked" /\ ~flag
    /\ msgq' = Append(msgq, [t |-> "add", r |-> Op(p).r])
    /\ where' = [where EXCEPT ![Op(p).r] = "msgq"]
    /\ ppc' = [ppc EXCEPT ![p] = "add.msg"]
    /\ UNCHANGED <<lock, flag, wakes, proxyAlive, pi, dropped>> /\ PUnch

AddWake(p) ==
    /\ ppc[p] = "add.msg"
    /\ wakes' = wakes + 1
    /\ lock' = 0 /\ NextOp(p)
    /\ UNCHANGED <<flag, msgq, proxyAlive, where, dropped>> /\ PUnch

-----------------------------------------------------------------------------
(* shutdown *)

ShLock(p) ==
    /\ ppc[p] = "idle" /\ HasOp(p) /\ Op(p).op = "shutdown" /\ lock = 0 /\ proxyAlive
    /\ lock' = p /\ ppc' = [ppc EXCEPT ![p] = "sh.locked"]
    /\ UNCHANGED <<flag, msgq, wakes, proxyAlive, pi, where, dropped>> /\ PUnch

\* idempotent: a second shutdown returns at once
ShAlready(p) ==
    /\ ppc[p] = "sh.locked" /\ flag
    /\ lock' = 0 /\ NextOp(p)
    /\ returned' = returned \cup {p}
    /\ UNCHANGED <<flag, msgq, wakes, proxyAlive, where, dropped, rq, sent, ropen, rt, batch, stopping, called>>

ShFlag(p) ==
    /\ ppc[p] = "sh.locked" /\ ~flag
    /\ flag' = TRUE /\ ppc' = [ppc EXCEPT ![p] = "sh.flag"]
    /\ UNCHANGED <<lock, msgq, wakes, proxyAlive, pi, where, dropped>> /\ PUnch

\* wake-up first, then the Shutdown message
ShWake(p) ==
    /\ ppc[p] = "sh.flag"
    /\ wakes' = wakes + 1 /\ ppc' = [ppc EXCEPT ![p] = "sh.woken"]
    /\ UNCHANGED <<lock, flag, msgq, proxyAlive, pi, where, dropped>> /\ PUnch

ShMsg(p) ==
    /\ ppc[p] = "sh.woken"
    /\ msgq' = Append(msgq, [t |-> "shutdown", r |-> p])
    /\ ppc' = [ppc EXCEPT ![p] = "sh.wait"]
    /\ UNCHANGED <<lock, flag, wakes, proxyAlive, pi, where, dropped>> /\ PUnch

\* ack_receiver.recv() returned (the router sent the acknowledgement: see TakeShutdown)
ShReturn(p) ==
    /\ ppc[p] = "sh.acked"
    /\ lock' = 0 /\ NextOp(p)
    /\ returned' = returned \cup {p}
    /\ UNCHANGED <<flag, msgq, wakes, proxyAlive, where, dropped, rq, sent, ropen, rt, batch, stopping, called>>

\* drop(RouterProxy): both senders go away; the wake-up channel hangs up
DropProxy(p) ==
    /\ ppc[p] = "idle" /\ HasOp(p) /\ Op(p).op = "dropproxy" /\ lock = 0 /\ proxyAlive
    /\ proxyAlive' = FALSE
    /\ NextOp(p)
    /\ UNCHANGED <<lock, flag, msgq, wakes, where, dropped>> /\ PUnch

ProxyStep(p) == AddLock(p) \/ AddBail(p) \/ AddMsg(p) \/ AddWake(p) \/ ShLock(p) \/ ShAlready(p)
                \/ ShFlag(p) \/ ShWake(p) \/ ShMsg(p) \/ ShReturn(p) \/ DropProxy(p)

-----------------------------------------------------------------------------
(* route senders *)

Send(r) ==
    /\ ropen[r] /\ sent[r] < RMsgs[r]
    /\ sent' = [sent EXCEPT ![r] = @ + 1]
    /\ rq' = IF where[r] = "gone" THEN rq ELSE [rq EXCEPT ![r] = Append(@, sent[r] + 1)]
    /\ UNCHANGED <<lock, flag, msgq, wakes, proxyAlive, ppc, pi, ropen, where, rt, batch, stopping, called,
                   dropped, returned>>

DropSender(r) ==
    /\ ropen[r] /\ sent[r] = RMsgs[r]
    /\ ropen' = [ropen EXCEPT ![r] = FALSE]
    /\ UNCHANGED <<lock, flag, msgq, wakes, proxyAlive, ppc, pi, rq, sent, where, rt, batch, stopping, called,
                   dropped, returned>>

-----------------------------------------------------------------------------
(* router thread *)

RUnch == UNCHANGED <<lock, flag, proxyAlive, pi, sent, ropen, returned>>

InSet == {r \in Routes : where[r] = "set"}
PendingRoute(r) == r \in InSet /\ (rq[r] # <<>> \/ ~ropen[r])
PendingWake == wakes > 0 \/ ~proxyAlive
EventsOf(r) == [i \in 1..Len(rq[r]) |-> [t |-> "msg", r |-> r, x |-> rq[r][i]]]
                 \o (IF ropen[r] THEN <<>> ELSE <<[t |-> "closed", r |-> r, x |-> 0]>>)
WakeEvents == [i \in 1..wakes |-> [t |-> "wake", r |-> 0, x |-> 0]]
                \o (IF proxyAlive THEN <<>> ELSE <<[t |-> "wakeclosed", r |-> 0, x |-> 0]>>)

RECURSIVE Concat(_)
Concat(ss) == IF ss = <<>> THEN <<>> ELSE Head(ss) \o Concat(Tail(ss))

\* all orders of a set (members of one batch)
RECURSIVE Orders(_)
Orders(S) == IF S = {} THEN {<<>>} ELSE UNION {{<<x>> \o o : o \in Orders(S \ {x})} : x \in S}

\* select(): some non-empty set of pending members, each drained completely (C06)
Select ==
    /\ rt = "select"
    /\ \E R \in SUBSET {r \in Routes : PendingRoute(r)}, w \in BOOLEAN :
         /\ (w => PendingWake) /\ (R # {} \/ w)
         /\ \E o \in Orders(R \cup (IF w THEN {0} ELSE {})) :
              batch' = Concat([i \in 1..Len(o) |-> IF o[i] = 0 THEN WakeEvents ELSE EventsOf(o[i])])
         /\ rq' = [r \in Routes |-> IF r \in R THEN <<>> ELSE rq[r]]
         /\ wakes' = IF w THEN 0 ELSE wakes
    /\ rt' = "batch"
    /\ UNCHANGED <<msgq, ppc, where, stopping, called, dropped>> /\ RUnch

\* for result in results: a wake-up -> msg_receiver.recv() (blocks until a message is there)
TakeWake ==
    /\ rt = "batch" /\ batch # <<>> /\ Head(batch).t = "wake"
    /\ msgq # <<>>
    /\ LET m == Head(msgq)
       IN /\ msgq' = Tail(msgq)
          /\ IF m.t = "add"
               THEN /\ where' = [where EXCEPT ![m.r] = "set"]
                    /\ batch' = Tail(batch)
                    /\ UNCHANGED <<stopping, ppc, dropped, rt>>
               ELSE \* Shutdown(ack)
                    /\ ppc' = [ppc EXCEPT ![m.r] = "sh.acked"]
                    /\ batch' = <<>>
                    /\ IF BreakInnerOnly
                         THEN \* acknowledge, `break` out of the `for` only: selects again, handlers live on
                              UNCHANGED <<stopping, where, dropped, rt>>
                         ELSE \* drop every handler (and routes still queued), acknowledge, leave run()
                              LET live == {r \in Routes : where[r] \in {"set", "msgq"}}
                              IN /\ \E o \in Orders(live) : dropped' = dropped \o o
                                 /\ where' = [r \in Routes |-> IF r \in live THEN "gone" ELSE where[r]]
                                 /\ rt' = "exited" /\ stopping' = TRUE
    /\ UNCHANGED <<wakes, rq, called>> /\ RUnch

CallHandler ==
    /\ rt = "batch" /\ batch # <<>> /\ Head(batch).t = "msg"
    /\ called' = Append(called, <<Head(batch).r, Head(batch).x>>)
    /\ batch' = Tail(batch)
    /\ UNCHANGED <<rt, msgq, wakes, ppc, rq, where, stopping, dropped>> /\ RUnch

RouteClosed ==
    /\ rt = "batch" /\ batch # <<>> /\ Head(batch).t = "closed"
    /\ where' = [where EXCEPT ![Head(batch).r] = "gone"]
    /\ dropped' = Append(dropped, Head(batch).r)
    /\ batch' = Tail(batch)
    /\ UNCHANGED <<rt, msgq, wakes, ppc, rq, stopping, called>> /\ RUnch

\* the proxy is gone: handlers.remove(wakeup id).unwrap() panics / or the router stops
WakeClosed ==
    /\ rt = "batch" /\ batch # <<>> /\ Head(batch).t = "wakeclosed"
    /\ IF PanicOnWakeClosed
         THEN rt' = "panicked" /\ UNCHANGED <<batch, stopping>>
         ELSE rt' = rt /\ batch' = <<>> /\ stopping' = TRUE
    /\ UNCHANGED <<msgq, wakes, ppc, rq, where, called, dropped>> /\ RUnch

\* the batch is done: select again, or stop and drop every handler (and the queued routes)
BatchDone ==
    /\ rt = "batch" /\ batch = <<>>
    /\ IF stopping
         THEN LET live == {r \in Routes : where[r] \in {"set", "msgq"}}
              IN /\ rt' = "exited"
                 /\ \E o \in Orders(live) : dropped' = dropped \o o
                 /\ where' = [r \in Routes |-> IF r \in live THEN "gone" ELSE where[r]]
         ELSE rt' = "select" /\ UNCHANGED <<dropped, where>>
    /\ UNCHANGED <<msgq, wakes, ppc, rq, batch, stopping, called>> /\ RUnch

RouterStep == Select \/ TakeWake \/ CallHandler \/ RouteClosed \/ WakeClosed \/ BatchDone

Next == (\E p \in Proxies : ProxyStep(p)) \/ (\E r \in Routes : Send(r) \/ DropSender(r)) \/ RouterStep

Spec == Init /\ [][Next]_vars
FairSpec == Spec /\ WF_vars(RouterStep) /\ (\A p \in Proxies : WF_vars(ProxyStep(p)))
                 /\ (\A r \in Routes : WF_vars(Send(r) \/ DropSender(r)))

-----------------------------------------------------------------------------
(* Properties *)

CallsOf(r) == SelectSeq(called, LAMBDA c : c[1] = r)

\* C07: each message to its own handler, once, in order
RouteOnceInOrder == \A r \in Routes : \A i \in 1..Len(CallsOf(r)) : CallsOf(r)[i][2] = i

\* C07: a handler is dropped at most once ...
DroppedOnce == \A i, j \in 1..Len(dropped) : i # j => dropped[i] # dropped[j]

\* ... and (when its channel disconnected while routed) only after its last message
Gone(r) == \E i \in 1..Len(dropped) : dropped[i] = r
DroppedAfterLast ==
    \A r \in Routes : (Gone(r) /\ rt \notin {"exited"} /\ ~flag /\ proxyAlive) => Len(CallsOf(r)) = RMsgs[r]

\* C17: when shutdown has returned the router has stopped: every handler has been dropped
StoppedWhenReturned ==
    returned # {} => \A r \in Routes : where[r] \in {"set", "msgq"} => FALSE

\* C17: no handler call after shutdown returned (action property)
NoCallAfterReturn == [][returned # {} => called' = called]_vars

\* C17: stopping never panics
NoPanic == rt # "panicked"

\* C17: shutdown returns (no deadlock), even when called twice / concurrently with add_route
ShutdownReturns ==
    \A p \in Proxies : (ppc[p] \in {"sh.locked", "sh.flag", "sh.woken", "sh.wait", "sh.acked"}) ~> (p \in returned)

\* C07 liveness (programs without shutdown / drop): everything sent is dispatched, every handler freed
AllDispatched == <>(\A r \in Routes : Gone(r) /\ Len(CallsOf(r)) = RMsgs[r])
=============================================================================
