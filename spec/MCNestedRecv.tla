---------------------------- MODULE MCNestedRecv ----------------------------
EXTENDS NestedRecv, Json
Export == Done => PrintT("@@" \o ToJson([mode |-> "nrecv", script |-> script, done |-> done]))
=============================================================================
