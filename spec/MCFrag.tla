------------------------------ MODULE MCFrag ------------------------------
(* Model-checking wrapper for Frag: exports every terminal behaviour as one JSON line. *)
EXTENDS Frag, Json

Export ==
    Terminal => PrintT("@@" \o ToJson([len |-> len, natt |-> natt, fh |-> fh, sres |-> spc,
                                      rres |-> rpc, att |-> att, sb |-> sb]))
=============================================================================
