----------------------------- MODULE AsyncRouter -----------------------------
(***************************************************************************)
(* src/asynch.rs: IpcReceiver::to_stream hands the receiver to a lazily    *)
(* started routing thread through an unbounded futures queue and pokes the *)
(* thread through a wake-up channel; the thread selects, forwards every    *)
(* message into the stream's unbounded buffer (waking its poller), removes *)
(* the stream's sender when the channel closes (ending the stream), and    *)
(* after every select installs the routes queued meanwhile.                *)
(*                                                                         *)
(* Each stream s has one channel whose sender sends NMsgs[s] messages -    *)
(* some before the conversion, some after - and then drops its handle.     *)
(* Decides (model level) C20.                                              *)
(***************************************************************************)
EXTENDS Naturals, Sequences, FiniteSets, TLC

CONSTANTS
    Streams,        \* stream ids
    NMsgs,          \* NMsgs[s]: messages sent on s's channel
    DrainOnlyOnWake,\* TRUE: queued routes are installed only when the event was a wake-up;
                    \* FALSE: after every select (the code)
    WakeFirst       \* TRUE: to_stream pokes the routing thread before queueing the route (a wrong
                    \* order that can strand the route); FALSE: queue, then poke (the code)

VARIABLES
    cq,        \* cq[s]: messages queued on the channel
    sent, open,\* per channel: messages sent, sender alive
    st,        \* st[s]: "recv" (still a receiver) | "queued" (in the add queue) | "set" | "closed"
    addq,      \* the futures queue of routes to add
    wakes,     \* wake-up messages pending
    tpc,       \* converting thread per stream: "idle" | "queued" | "done"
    buf,       \* buf[s]: the stream's buffer
    ended,     \* ended[s]: the stream's sender was dropped by the routing thread
    yielded,   \* yielded[s]: items the consumer got
    fin,       \* fin[s]: the consumer saw end-of-stream
    parked,    \* consumers whose last poll returned Pending (they sleep until woken)
    wokenUp,   \* parked consumers that have been woken
    rt, batch  \* routing thread

vars == <<cq, sent, open, st, addq, wakes, tpc, buf, ended, yielded, fin, parked, wokenUp, rt, batch>>

Init ==
    /\ cq = [s \in Streams |-> <<>>] /\ sent = [s \in Streams |-> 0] /\ open = [s \in Streams |-> TRUE]
    /\ st = [s \in Streams |-> "recv"] /\ addq = <<>> /\ wakes = 0
    /\ tpc = [s \in Streams |-> "idle"]
    /\ buf = [s \in Streams |-> <<>>] /\ ended = [s \in Streams |-> FALSE]
    /\ yielded = [s \in Streams |-> <<>>] /\ fin = [s \in Streams |-> FALSE]
    /\ parked = {} /\ wokenUp = {}
    /\ rt = "select" /\ batch = <<>>

Send(s) ==
    /\ open[s] /\ sent[s] < NMsgs[s]
    /\ sent' = [sent EXCEPT ![s] = @ + 1] /\ cq' = [cq EXCEPT ![s] = Append(@, sent[s] + 1)]
    /\ UNCHANGED <<open, st, addq, wakes, tpc, buf, ended, yielded, fin, parked, wokenUp, rt, batch>>

DropSender(s) ==
    /\ open[s] /\ sent[s] = NMsgs[s]
    /\ open' = [open EXCEPT ![s] = FALSE]
    /\ UNCHANGED <<cq, sent, st, addq, wakes, tpc, buf, ended, yielded, fin, parked, wokenUp, rt, batch>>

\* to_stream: ROUTER.add_route.unbounded_send((receiver, sender))
ToStreamQueue(s) ==
    /\ tpc[s] = (IF WakeFirst THEN "woken" ELSE "idle")
    /\ addq' = Append(addq, s) /\ st' = [st EXCEPT ![s] = "queued"]
    /\ tpc' = [tpc EXCEPT ![s] = IF WakeFirst THEN "done" ELSE "queued"]
    /\ UNCHANGED <<cq, sent, open, wakes, buf, ended, yielded, fin, parked, wokenUp, rt, batch>>

\* ... then waker.send(())
ToStreamWake(s) ==
    /\ tpc[s] = (IF WakeFirst THEN "idle" ELSE "queued")
    /\ wakes' = wakes + 1 /\ tpc' = [tpc EXCEPT ![s] = IF WakeFirst THEN "woken" ELSE "done"]
    /\ UNCHANGED <<cq, sent, open, st, addq, buf, ended, yielded, fin, parked, wokenUp, rt, batch>>

InSet == {s \in Streams : st[s] = "set"}
Pending(s) == s \in InSet /\ (cq[s] # <<>> \/ ~open[s])
EventsOf(s) == [i \in 1..Len(cq[s]) |-> [t |-> "msg", s |-> s, x |-> cq[s][i]]]
                 \o (IF open[s] THEN <<>> ELSE <<[t |-> "closed", s |-> s, x |-> 0]>>)
RECURSIVE Concat(_)
Concat(ss) == IF ss = <<>> THEN <<>> ELSE Head(ss) \o Concat(Tail(ss))
RECURSIVE Orders(_)
Orders(S) == IF S = {} THEN {<<>>} ELSE UNION {{<<x>> \o o : o \in Orders(S \ {x})} : x \in S}

Select ==
    /\ rt = "select"
    /\ \E R \in SUBSET {s \in Streams : Pending(s)}, w \in BOOLEAN :
         /\ (w => wakes > 0) /\ (R # {} \/ w)
         /\ \E o \in Orders(R) :
              batch' = Concat([i \in 1..Len(o) |-> EventsOf(o[i])])
                         \o (IF w THEN <<[t |-> "wake", s |-> 0, x |-> 0]>> ELSE <<>>)
         /\ cq' = [s \in Streams |-> IF s \in R THEN <<>> ELSE cq[s]]
         /\ wakes' = IF w THEN 0 ELSE wakes
    /\ rt' = "batch"
    /\ UNCHANGED <<sent, open, st, addq, tpc, buf, ended, yielded, fin, parked, wokenUp>>

\* sender.unbounded_send(msg): buffers the message and wakes the task parked on the stream
Dispatch ==
    /\ rt = "batch" /\ batch # <<>> /\ Head(batch).t = "msg"
    /\ LET s == Head(batch).s
       IN /\ buf' = [buf EXCEPT ![s] = Append(@, Head(batch).x)]
          /\ wokenUp' = IF s \in parked THEN wokenUp \cup {s} ELSE wokenUp
    /\ batch' = Tail(batch)
    /\ UNCHANGED <<cq, sent, open, st, addq, wakes, tpc, ended, yielded, fin, parked, rt>>

\* senders.remove(&id): the stream's sender is dropped -> end of stream after the buffered items
Closed ==
    /\ rt = "batch" /\ batch # <<>> /\ Head(batch).t = "closed"
    /\ LET s == Head(batch).s
       IN /\ ended' = [ended EXCEPT ![s] = TRUE] /\ st' = [st EXCEPT ![s] = "closed"]
          /\ wokenUp' = IF s \in parked THEN wokenUp \cup {s} ELSE wokenUp
    /\ batch' = Tail(batch)
    /\ UNCHANGED <<cq, sent, open, addq, wakes, tpc, buf, yielded, fin, parked, rt>>

WakeEvent ==
    /\ rt = "batch" /\ batch # <<>> /\ Head(batch).t = "wake"
    /\ batch' = Tail(batch)
    /\ rt' = IF DrainOnlyOnWake THEN "drain" ELSE rt
    /\ UNCHANGED <<cq, sent, open, st, addq, wakes, tpc, buf, ended, yielded, fin, parked, wokenUp>>

\* after the batch: while let Ok(Some(route)) = recv.try_next() { receivers.add_opaque; senders.insert }
BatchDone ==
    /\ \/ rt = "batch" /\ batch = <<>> /\ ~DrainOnlyOnWake
       \/ rt = "drain"
    /\ st' = [s \in Streams |-> IF \E i \in 1..Len(addq) : addq[i] = s THEN "set" ELSE st[s]]
    /\ addq' = <<>>
    /\ rt' = IF batch = <<>> THEN "select" ELSE "batch"
    /\ UNCHANGED <<cq, sent, open, wakes, tpc, buf, ended, yielded, fin, parked, wokenUp, batch>>

BatchDoneNoDrain ==
    /\ rt = "batch" /\ batch = <<>> /\ DrainOnlyOnWake
    /\ rt' = "select"
    /\ UNCHANGED <<cq, sent, open, st, addq, wakes, tpc, buf, ended, yielded, fin, parked, wokenUp, batch>>

\* the consumer polls the stream (only when not parked, or after having been woken)
Poll(s) ==
    /\ tpc[s] = "done" /\ ~fin[s] /\ (s \notin parked \/ s \in wokenUp)
    /\ IF buf[s] # <<>>
         THEN /\ yielded' = [yielded EXCEPT ![s] = Append(@, Head(buf[s]))]
              /\ buf' = [buf EXCEPT ![s] = Tail(@)]
              /\ parked' = parked \ {s} /\ wokenUp' = wokenUp \ {s} /\ fin' = fin
         ELSE IF ended[s]
           THEN fin' = [fin EXCEPT ![s] = TRUE] /\ parked' = parked \ {s} /\ wokenUp' = wokenUp \ {s}
                /\ UNCHANGED <<yielded, buf>>
           ELSE parked' = parked \cup {s} /\ wokenUp' = wokenUp \ {s} /\ UNCHANGED <<yielded, buf, fin>>
    /\ UNCHANGED <<cq, sent, open, st, addq, wakes, tpc, ended, rt, batch>>

RouterStep == Select \/ Dispatch \/ Closed \/ WakeEvent \/ BatchDone \/ BatchDoneNoDrain
Next == RouterStep \/ \E s \in Streams : Send(s) \/ DropSender(s) \/ ToStreamQueue(s) \/ ToStreamWake(s) \/ Poll(s)

Spec == Init /\ [][Next]_vars
FairSpec == Spec /\ WF_vars(RouterStep)
                 /\ \A s \in Streams : WF_vars(Send(s) \/ DropSender(s)) /\ WF_vars(ToStreamQueue(s) \/ ToStreamWake(s))
                                       /\ WF_vars(Poll(s))

\* every item once, in send order
InOrderOnce == \A s \in Streams : \A i \in 1..Len(yielded[s]) : yielded[s][i] = i
\* end-of-stream only after the last sender is gone and everything was yielded
EndAfterLast == \A s \in Streams : fin[s] => (~open[s] /\ Len(yielded[s]) = NMsgs[s])
\* a parked consumer with something to see has been woken
WakesPoller == \A s \in parked : (buf[s] # <<>> \/ ended[s]) => s \in wokenUp
\* everything is yielded and the stream ends
Completes == <>(\A s \in Streams : fin[s])
=============================================================================
