----------------------------- MODULE FifoTrace -----------------------------
(***************************************************************************)
(* Trace validation for Fifo.tla: free-running senders (threads and        *)
(* spawned processes, 1..8 of them, on own handles or clones) and a        *)
(* receiver (blocking, delayed, try_recv polling, timed polling, through a *)
(* receiver set) record f.call / f.ret / f.drop / f.recv / f.disc events   *)
(* with one shared sequence number.  An event of a sender is emitted       *)
(* before the call starts resp. after it returned, so 'ret(x) precedes     *)
(* call(y) in the trace' implies that x really returned before y began.    *)
(* Each recorded delivery / disconnection is checked with the operators    *)
(* that Fifo.tla proves necessary: MayDeliver, MayDisconnect.              *)
(***************************************************************************)
EXTENDS Fifo, Json, IOUtils, TLC, TLCExt

VARIABLES l
tvars == <<vars, l>>
Rec == ndJsonDeserialize(IOEnv.TRACE)
E == Rec[l]
IsEv(k) == l <= Len(Rec) /\ Rec[l].ev = k /\ l' = l + 1
M == <<E.s, E.j>>

TraceN == [s \in Senders |-> MaxJ]
TraceInit == Init /\ l = 1

FScenario ==
    /\ IsEv("f.scenario")
    /\ pc' = [m \in AllMsgs |-> "idle"] /\ open' = [s \in Senders |-> s <= E.n]
    /\ queue' = <<>> /\ delivered' = <<>> /\ preds' = [m \in AllMsgs |-> {}] /\ disc' = FALSE

FCall ==
    /\ IsEv("f.call") /\ M \in AllMsgs /\ pc[M] = "idle" /\ open[E.s]
    /\ \A j \in 1..(E.j - 1) : pc[<<E.s, j>>] = "ret"
    /\ pc' = [pc EXCEPT ![M] = "called"]
    /\ preds' = [preds EXCEPT ![M] = PredsAt(pc, delivered)]
    /\ UNCHANGED <<open, queue, delivered, disc>>

\* the send returned: success (every such message must be delivered) or failure (C09's business, not judged here
\* except that it must not be delivered in pieces - a failed send's message may or may not arrive)
FRet ==
    /\ IsEv("f.ret") /\ pc[M] = "called"
    /\ pc' = [pc EXCEPT ![M] = IF E.ok = 1 THEN "ret" ELSE "failed"]
    /\ UNCHANGED <<open, queue, delivered, preds, disc>>

\* emitted just before the handle is dropped (the disconnection may be observed before the dropping thread
\* gets to emit anything afterwards)
FDrop ==
    /\ IsEv("f.drop") /\ open[E.s]
    /\ open' = [open EXCEPT ![E.s] = FALSE]
    /\ UNCHANGED <<pc, queue, delivered, preds, disc>>

FRecv ==
    /\ IsEv("f.recv") /\ E.intact = 1 /\ ~disc
    /\ M \in AllMsgs /\ MayDeliver(M, pc, delivered, preds)
    /\ delivered' = Append(delivered, M)
    /\ UNCHANGED <<pc, open, queue, preds, disc>>

FDisc ==
    /\ IsEv("f.disc") /\ ~disc
    /\ \A s \in Senders : ~open[s]
    /\ \A m \in AllMsgs : pc[m] \in {"idle", "ret", "failed"} /\ (pc[m] = "ret" => m \in Range(delivered))
    /\ disc' = TRUE
    /\ UNCHANGED <<pc, open, queue, delivered, preds>>

FEnd == IsEv("f.end") /\ UNCHANGED vars

TraceNext == FScenario \/ FCall \/ FRet \/ FDrop \/ FRecv \/ FDisc \/ FEnd
TraceSpec == TraceInit /\ [][TraceNext]_tvars

TraceAccepted ==
    LET d == TLCGet("stats").diameter IN
    IF d - 1 = Len(Rec) THEN TRUE
    ELSE Print(<<"@@REJECT", d, IF d <= Len(Rec) THEN Rec[d] ELSE "eof">>, FALSE)
=============================================================================
