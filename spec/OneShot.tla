------------------------------- MODULE OneShot -------------------------------
(***************************************************************************)
(* IpcOneShotServer / IpcSender::connect (src/ipc.rs; unix: a listening    *)
(* AF_UNIX SOCK_SEQPACKET socket at <fresh temp dir>/socket).              *)
(*                                                                         *)
(* Servers i \in Servers; each has at most one client (a thread or a       *)
(* process) that connects, sends messages and may exit. accept consumes    *)
(* the server.  Premise K11: connect succeeds once the socket is bound and *)
(* listening, before accept; what is sent before accept is kept, also when *)
(* the client has exited; after close+unlink connect fails.                *)
(* Decides (model level) C08.                                              *)
(***************************************************************************)
EXTENDS Naturals, Sequences, FiniteSets, TLC

CONSTANTS Servers, MaxMsgs, MaxOps

VARIABLES
    srv,       \* srv[i]: "none" | "open" | "accepting" | "consumed" | "dropped"
    names,     \* names[i]: name issued (0 = none); names are numbered in issue order
    nextName,
    conn,      \* conn[i]: "none" | "connected" | "closed"  (the client's sender handle)
    q,         \* q[i]: messages sent and not yet received: [x, big, att]
    nsent,     \* nsent[i]
    got,       \* got[i]: messages received so far (first one by accept)
    rx,        \* rx[i]: the receiver returned by accept is held
    fs,        \* fs[i]: the socket path / temp dir / listening descriptor exist
    nops, log

vars == <<srv, names, nextName, conn, q, nsent, got, rx, fs, nops, log>>
View == <<srv, names, nextName, conn, q, nsent, got, rx, fs>>

Init ==
    /\ srv = [i \in Servers |-> "none"] /\ names = [i \in Servers |-> 0] /\ nextName = 1
    /\ conn = [i \in Servers |-> "none"] /\ q = [i \in Servers |-> <<>>] /\ nsent = [i \in Servers |-> 0]
    /\ got = [i \in Servers |-> <<>>] /\ rx = [i \in Servers |-> FALSE]
    /\ fs = [i \in Servers |-> FALSE]
    /\ nops = 0 /\ log = <<>>

L(e) == log' = Append(log, e) /\ nops' = nops + 1
Can == nops < MaxOps

ServerNew(i) ==
    /\ Can /\ srv[i] = "none"
    /\ srv' = [srv EXCEPT ![i] = "open"] /\ names' = [names EXCEPT ![i] = nextName] /\ nextName' = nextName + 1
    /\ fs' = [fs EXCEPT ![i] = TRUE]
    /\ L([op |-> "new", i |-> i])
    /\ UNCHANGED <<conn, q, nsent, got, rx>>

\* connect(name): succeeds while the server's socket exists (open or being accepted)
Connect(i) ==
    /\ Can /\ names[i] # 0 /\ conn[i] = "none"
    /\ LET ok == srv[i] \in {"open", "accepting"}
       IN /\ conn' = [conn EXCEPT ![i] = IF ok THEN "connected" ELSE "none"]
          /\ L([op |-> "connect", i |-> i, res |-> IF ok THEN "ok" ELSE "err"])
    /\ UNCHANGED <<srv, names, nextName, q, nsent, got, rx, fs>>

ClientSend(i, big, att) ==
    /\ Can /\ conn[i] = "connected" /\ nsent[i] < MaxMsgs
    \* the receiving end exists: the listening socket's backlog, or the accepted receiver
    /\ LET ok == srv[i] \in {"open", "accepting"} \/ rx[i]
       IN /\ q' = IF ok THEN [q EXCEPT ![i] = Append(@, [x |-> nsent[i] + 1, big |-> big, att |-> att])] ELSE q
          /\ nsent' = [nsent EXCEPT ![i] = @ + 1]
          /\ L([op |-> "send", i |-> i, x |-> nsent[i] + 1, big |-> big, att |-> att,
                res |-> IF ok THEN "ok" ELSE "err"])
    /\ UNCHANGED <<srv, names, nextName, conn, got, rx, fs>>

\* the client thread ends / the client process exits: its sender handle is gone
ClientExit(i) ==
    /\ Can /\ conn[i] = "connected"
    /\ conn' = [conn EXCEPT ![i] = "closed"]
    /\ L([op |-> "exit", i |-> i])
    /\ UNCHANGED <<srv, names, nextName, q, nsent, got, rx, fs>>

\* accept() is called before any client connected: the call sleeps
AcceptCall(i) ==
    /\ Can /\ srv[i] = "open" /\ conn[i] = "none"
    /\ srv' = [srv EXCEPT ![i] = "accepting"]
    /\ L([op |-> "accept.call", i |-> i])
    /\ UNCHANGED <<names, nextName, conn, q, nsent, got, rx, fs>>

\* accept() returns: first message + receiver; the server is consumed, nothing of the rendezvous remains
AcceptRet(i) ==
    /\ Can /\ srv[i] \in {"open", "accepting"} /\ q[i] # <<>>
    /\ got' = [got EXCEPT ![i] = <<Head(q[i])>>] /\ q' = [q EXCEPT ![i] = Tail(@)]
    /\ rx' = [rx EXCEPT ![i] = TRUE]
    /\ L([op |-> IF srv[i] = "open" THEN "accept" ELSE "accept.ret", i |-> i, x |-> Head(q[i]).x,
          big |-> Head(q[i]).big, att |-> Head(q[i]).att])
    /\ srv' = [srv EXCEPT ![i] = "consumed"] /\ fs' = [fs EXCEPT ![i] = FALSE]
    /\ UNCHANGED <<names, nextName, conn, nsent>>

\* accept() when the client connected and went away without sending anything: the first receive
\* fails; the server is consumed all the same and nothing may remain (no path, no directory, no
\* listening descriptor, and not the accepted connection either)
AcceptFail(i) ==
    /\ Can /\ srv[i] = "open" /\ conn[i] = "closed" /\ q[i] = <<>> /\ nsent[i] = 0
    /\ L([op |-> "accept.fail", i |-> i])
    /\ srv' = [srv EXCEPT ![i] = "consumed"] /\ fs' = [fs EXCEPT ![i] = FALSE]
    /\ UNCHANGED <<names, nextName, conn, q, nsent, got, rx>>

Recv(i) ==
    /\ Can /\ rx[i]
    /\ IF q[i] # <<>>
         THEN /\ got' = [got EXCEPT ![i] = Append(@, Head(q[i]))] /\ q' = [q EXCEPT ![i] = Tail(@)]
              /\ L([op |-> "recv", i |-> i, res |-> "msg", x |-> Head(q[i]).x, big |-> Head(q[i]).big,
                    att |-> Head(q[i]).att])
         ELSE /\ UNCHANGED <<got, q>>
              /\ L([op |-> "recv", i |-> i, res |-> IF conn[i] = "closed" THEN "disc" ELSE "empty", x |-> 0,
                    big |-> FALSE, att |-> FALSE])
    /\ UNCHANGED <<srv, names, nextName, conn, nsent, rx, fs>>

\* the server is dropped unused
ServerDrop(i) ==
    /\ Can /\ srv[i] = "open"
    /\ srv' = [srv EXCEPT ![i] = "dropped"] /\ fs' = [fs EXCEPT ![i] = FALSE]
    /\ q' = [q EXCEPT ![i] = <<>>]
    /\ L([op |-> "dropserver", i |-> i])
    /\ UNCHANGED <<names, nextName, conn, nsent, got, rx>>

Next == \E i \in Servers :
          \/ ServerNew(i) \/ Connect(i) \/ ClientExit(i) \/ AcceptCall(i) \/ AcceptRet(i) \/ AcceptFail(i) \/ Recv(i)
          \/ ServerDrop(i)
          \/ \E big \in BOOLEAN, att \in BOOLEAN : ClientSend(i, big, att)

Spec == Init /\ [][Next]_vars

NamesDistinct == \A i, j \in Servers : (i # j /\ names[i] # 0) => names[i] # names[j]
\* accept returned the first message, the receiver yields the rest in order
InOrder == \A i \in Servers : \A k \in 1..Len(got[i]) : got[i][k].x = k
\* after accept returned or the server was dropped nothing of the rendezvous remains
NothingLeft == \A i \in Servers : srv[i] \in {"consumed", "dropped"} => ~fs[i]
Finished == nops = MaxOps
=============================================================================
