------------------------------ MODULE Resources ------------------------------
(***************************************************************************)
(* The resource ledger: every descriptor, shared mapping and C-heap block  *)
(* the Unix back-end creates, receives or releases, per process, as        *)
(* reported by the hooks in src/verif.rs (module `sys`).  It is a monitor: *)
(* it is driven by recorded executions only (ResourcesTrace), never        *)
(* explored on its own.  Decides C11 and the lifetime/extent half of C18.  *)
(***************************************************************************)
EXTENDS Naturals, Sequences, FiniteSets, TLC

VARIABLES
    fds,      \* fds[p]: descriptors process p's library code owns: set of [fd, how]
    maps,     \* maps[p]: shared mappings: set of [addr, len]
    heap,     \* heap[p]: malloc'ed control buffers: set of addresses
    bad       \* first rule broken ("" = none)

rvars == <<fds, maps, heap, bad>>

RInit == fds = <<>> /\ maps = <<>> /\ heap = <<>> /\ bad = ""

Known(p) == p \in DOMAIN fds
F(p) == IF Known(p) THEN fds[p] ELSE {}
Mp(p) == IF p \in DOMAIN maps THEN maps[p] ELSE {}
Hp(p) == IF p \in DOMAIN heap THEN heap[p] ELSE {}
Set(f, p, v) == [q \in DOMAIN f \cup {p} |-> IF q = p THEN v ELSE f[q]]

Flag(cond, what) == bad' = IF bad = "" /\ ~cond THEN what ELSE bad

Owns(p, fd) == \E e \in F(p) : e.fd = fd

\* a descriptor now belongs to the library: it must not be one the ledger still holds, and it must be
\* close-on-exec (C11: not inherited by unrelated children)
FdNew(p, fd, cloexec, how) ==
    /\ fds' = Set(fds, p, F(p) \cup {[fd |-> fd, how |-> how]})
    /\ Flag(~Owns(p, fd) /\ cloexec = 1,
            IF Owns(p, fd) THEN "descriptor number handed out while the ledger still holds it (a close was not observed)"
            ELSE "descriptor created or received without close-on-exec")
    /\ UNCHANGED <<maps, heap>>

\* close(fd): only what the library owns, and only once (C11)
Close(p, fd) ==
    /\ fds' = Set(fds, p, {e \in F(p) : e.fd # fd})
    /\ Flag(Owns(p, fd), "close of a descriptor the library does not own (closed twice, or never obtained)")
    /\ UNCHANGED <<maps, heap>>

CloseRet(p, res) ==
    /\ Flag(res = 0, "close() failed") /\ UNCHANGED <<fds, maps, heap>>

Mmap(p, addr, len) ==
    /\ maps' = Set(maps, p, Mp(p) \cup {[addr |-> addr, len |-> len]})
    /\ Flag(\A m \in Mp(p) : m.addr # addr, "mapping address reported twice")
    /\ UNCHANGED <<fds, heap>>

\* munmap: exactly a live mapping, with its length (C11/C18)
Munmap(p, addr, len) ==
    /\ maps' = Set(maps, p, {m \in Mp(p) : m.addr # addr})
    /\ Flag([addr |-> addr, len |-> len] \in Mp(p), "munmap of something that is not a live mapping of that length")
    /\ UNCHANGED <<fds, heap>>

Malloc(p, addr) ==
    /\ heap' = Set(heap, p, Hp(p) \cup {addr}) /\ Flag(addr # 0, "malloc failed") /\ UNCHANGED <<fds, maps>>

\* free: a live block or NULL, never twice (C18)
Free(p, addr) ==
    /\ heap' = Set(heap, p, Hp(p) \ {addr})
    /\ Flag(addr = 0 \/ addr \in Hp(p), "free of a block that is not live (double free)")
    /\ UNCHANGED <<fds, maps>>

\* a byte slice is built over (addr, len): inside a live mapping; never from a null base (C18)
Slice(p, addr, len) ==
    /\ Flag(addr # 0 /\ \E m \in Mp(p) : m.addr = addr /\ len <= m.len,
            IF addr = 0 THEN "slice built from a null base pointer"
            ELSE "slice outside any live mapping")
    /\ UNCHANGED <<fds, maps, heap>>

\* the driver says: every handle has been dropped; nothing may be left (C11), and /proc agrees
Quiescent(p, fddelta, mapdelta) ==
    /\ Flag(F(p) = {} /\ Mp(p) = {} /\ Hp(p) = {} /\ fddelta = 0 /\ mapdelta = 0,
            IF F(p) # {} THEN "descriptors still owned at quiescence"
            ELSE IF Mp(p) # {} THEN "mappings still alive at quiescence"
            ELSE IF Hp(p) # {} THEN "control buffers not freed at quiescence"
            ELSE "/proc shows descriptors or mappings the ledger does not know (leak outside the hooks)")
    /\ UNCHANGED <<fds, maps, heap>>

\* a process ended: its ledger goes with it
Exit(p) ==
    /\ fds' = [q \in DOMAIN fds \ {p} |-> fds[q]]
    /\ maps' = [q \in DOMAIN maps \ {p} |-> maps[q]]
    /\ heap' = [q \in DOMAIN heap \ {p} |-> heap[q]]
    /\ UNCHANGED bad

Clean == bad = ""
=============================================================================
