---------------------------- MODULE UnixHandles ----------------------------
(***************************************************************************)
(* How the Unix back-end implements "a sender handle exists somewhere" and *)
(* "the receiving end exists somewhere" (the two predicates Channels.tla   *)
(* uses for `disconnected` and for `send fails`) with descriptors:         *)
(*                                                                         *)
(*   * a channel is a socket pair; OsIpcSender clones share ONE descriptor *)
(*     through an Arc, OsIpcReceiver owns one descriptor;                  *)
(*   * embedding an endpoint puts a reference to its open file description *)
(*     in flight inside the carrying socket's queue (SCM_RIGHTS); receiving*)
(*     turns it into a fresh descriptor of the receiving process;          *)
(*   * the kernel reports end-of-file on a socket when its queue is empty  *)
(*     and no reference to the peer end remains (descriptor of any process *)
(*     or in flight in a LIVE queue); EPIPE to a sender when no reference  *)
(*     to the receiving end remains; closing the last reference to a       *)
(*     receiving end discards its queue and releases what is in flight in  *)
(*     it (premises K5, K6, K7), recursively; process exit closes all its  *)
(*     descriptors (K8).                                                   *)
(*                                                                         *)
(* The model keeps BOTH views - abstract handles (as in Channels.tla) and   *)
(* descriptors/references - and TLC checks that they agree:                *)
(*     KernelSaysDisconnected(c)  <=>  no sender handle exists anywhere    *)
(*     KernelSaysBrokenPipe(c)    <=>  the receiving end exists nowhere    *)
(* for every reachable state (acyclic channel families).  This is the      *)
(* design-level argument behind C03 and C09; the code is bound to          *)
(* Channels.tla by the chan replay, and to the descriptor discipline by    *)
(* the Resources ledger.                                                   *)
(***************************************************************************)
EXTENDS Naturals, Sequences, FiniteSets, TLC

CONSTANTS Chans, Procs, MaxOps, MaxClones,
          Variant    \* "code" | "close_each_drop" (every sender handle drop closes the shared descriptor)
                     \*        | "no_cascade" (a destroyed queue keeps what is in flight in it referenced)

VARIABLES
    \* abstract view
    sh,      \* sh[c][p]: number of sender handles of channel c that process p holds
    rh,      \* rh[c]: process holding the receiver handle of c (0 = none: in transit or gone)
    \* descriptor view
    stx,     \* stx[c][p]: number of descriptors of process p that refer to c's sending end
             \* (all clones made by Clone share one; a received sender is a new one)
    srx,     \* srx[c]: process holding the descriptor of c's receiving end (0 = none)
    q,       \* q[c]: queue of c's receiving socket: sequence of sets of references [k, c]  (k: "S" | "R")
    dead,    \* dead[c]: the receiving socket of c has been destroyed (its last reference is gone)
    nops

vars == <<sh, rh, stx, srx, q, dead, nops>>

Init ==
    /\ sh = [c \in Chans |-> [p \in Procs |-> IF p = 1 THEN 1 ELSE 0]]
    /\ rh = [c \in Chans |-> 1]
    /\ stx = [c \in Chans |-> [p \in Procs |-> IF p = 1 THEN 1 ELSE 0]]
    /\ srx = [c \in Chans |-> 1]
    /\ q = [c \in Chans |-> <<>>]
    /\ dead = [c \in Chans |-> FALSE]
    /\ nops = 0

Can == nops < MaxOps
Tick == nops' = nops + 1

RECURSIVE Sum(_, _)
Sum(f, S) == IF S = {} THEN 0 ELSE LET x == CHOOSE y \in S : TRUE IN f[x] + Sum(f, S \ {x})

\* references in flight in live queues
InFlight(k, c) ==
    LET cnt(c2) == Cardinality({i \in 1..Len(q[c2]) : [k |-> k, c |-> c] \in q[c2][i]})
    IN Sum([c2 \in Chans |-> IF dead[c2] THEN 0 ELSE cnt(c2)], Chans)

\* references in flight as the kernel counts them
KInFlight(k, c) ==
    LET cnt(c2) == Cardinality({i \in 1..Len(q[c2]) : [k |-> k, c |-> c] \in q[c2][i]})
    IN Sum([c2 \in Chans |-> IF dead[c2] /\ Variant # "no_cascade" THEN 0 ELSE cnt(c2)], Chans)

\* what the kernel counts
RefTx(c) == Sum(stx[c], Procs) + KInFlight("S", c)
RefRx(c) == (IF srx[c] # 0 THEN 1 ELSE 0) + KInFlight("R", c)

\* what the abstract model counts
AbsSenders(c) == Sum(sh[c], Procs) + InFlight("S", c)
AbsReceiverExists(c) == rh[c] # 0 \/ InFlight("R", c) > 0

\* destroying receiving sockets whose last reference is gone, recursively (K7)
RECURSIVE Cascade(_, _)
Cascade(qq, dd) ==
    LET refrx(c) == (IF srx'[c] # 0 THEN 1 ELSE 0)
                      + Sum([c2 \in Chans |-> IF dd[c2] THEN 0
                                              ELSE Cardinality({i \in 1..Len(qq[c2]) : [k |-> "R", c |-> c] \in qq[c2][i]})],
                            Chans)
        newly == {c \in Chans : ~dd[c] /\ refrx(c) = 0}
    IN IF newly = {} THEN dd
       ELSE Cascade(qq, [c \in Chans |-> dd[c] \/ c \in newly])

-----------------------------------------------------------------------------
\* clone of a sender handle: another handle on the same descriptor
Clone(p, c) ==
    /\ Can /\ sh[c][p] > 0 /\ sh[c][p] < MaxClones
    /\ sh' = [sh EXCEPT ![c][p] = @ + 1]
    /\ UNCHANGED <<rh, stx, srx, q, dead>> /\ Tick

\* drop of a sender handle: the descriptor is closed with the last handle on it
DropSender(p, c) ==
    /\ Can /\ sh[c][p] > 0
    /\ sh' = [sh EXCEPT ![c][p] = @ - 1]
    /\ stx' = IF sh[c][p] = 1 \/ Variant = "close_each_drop" THEN [stx EXCEPT ![c][p] = 0] ELSE stx
    /\ UNCHANGED <<rh, srx, q, dead>> /\ Tick

\* drop of the receiver handle: close; the socket may die, taking what is in flight in it
DropReceiver(p, c) ==
    /\ Can /\ rh[c] = p
    /\ rh' = [rh EXCEPT ![c] = 0] /\ srx' = [srx EXCEPT ![c] = 0]
    /\ dead' = Cascade(q, dead)
    /\ UNCHANGED <<sh, stx, q>> /\ Tick

\* process p sends on c a message embedding a clone of its sender of cs and/or its receiver of cr
\* (cr > c keeps the family acyclic); the send succeeds iff the kernel finds the peer (no EPIPE)
Send(p, c, refs) ==
    /\ Can /\ sh[c][p] > 0 /\ RefRx(c) > 0 /\ ~dead[c]
    /\ \A r \in refs : IF r.k = "S" THEN sh[r.c][p] > 0 ELSE (rh[r.c] = p /\ r.c > c)
    /\ q' = [q EXCEPT ![c] = Append(@, refs)]
    \* an embedded receiver is moved: the program's handle and descriptor are gone
    /\ rh' = [c2 \in Chans |-> IF [k |-> "R", c |-> c2] \in refs THEN 0 ELSE rh[c2]]
    /\ srx' = [c2 \in Chans |-> IF [k |-> "R", c |-> c2] \in refs THEN 0 ELSE srx[c2]]
    /\ UNCHANGED <<sh, stx, dead>> /\ Tick

\* the holder of c's receiver receives the next message: references become descriptors + handles
Recv(p, c) ==
    /\ Can /\ rh[c] = p /\ q[c] # <<>>
    /\ LET m == Head(q[c])
       IN /\ q' = [q EXCEPT ![c] = Tail(@)]
          /\ sh' = [c2 \in Chans |-> IF [k |-> "S", c |-> c2] \in m THEN [sh[c2] EXCEPT ![p] = @ + 1] ELSE sh[c2]]
          /\ stx' = [c2 \in Chans |-> IF [k |-> "S", c |-> c2] \in m THEN [stx[c2] EXCEPT ![p] = @ + 1] ELSE stx[c2]]
          /\ rh' = [c2 \in Chans |-> IF [k |-> "R", c |-> c2] \in m THEN p ELSE rh[c2]]
          /\ srx' = [c2 \in Chans |-> IF [k |-> "R", c |-> c2] \in m THEN p ELSE srx[c2]]
    /\ UNCHANGED dead /\ Tick

\* process p exits: every descriptor it holds is closed (K8)
Exit(p) ==
    /\ Can /\ p # 1
    /\ sh' = [c \in Chans |-> [sh[c] EXCEPT ![p] = 0]]
    /\ stx' = [c \in Chans |-> [stx[c] EXCEPT ![p] = 0]]
    /\ rh' = [c \in Chans |-> IF rh[c] = p THEN 0 ELSE rh[c]]
    /\ srx' = [c \in Chans |-> IF srx[c] = p THEN 0 ELSE srx[c]]
    /\ dead' = Cascade(q, dead)
    /\ UNCHANGED q /\ Tick

RefSets == SUBSET {[k |-> k, c |-> c] : k \in {"S", "R"}, c \in Chans}
Next == \E p \in Procs, c \in Chans :
          \/ Clone(p, c) \/ DropSender(p, c) \/ DropReceiver(p, c) \/ Recv(p, c) \/ Exit(p)
          \/ \E refs \in {r \in RefSets : Cardinality(r) <= 2} : Send(p, c, refs)

Spec == Init /\ [][Next]_vars

-----------------------------------------------------------------------------
\* what the kernel tells the code
KernelSaysDisconnected(c) == q[c] = <<>> /\ RefTx(c) = 0          \* recvmsg returns 0
KernelSaysBrokenPipe(c) == dead[c] \/ RefRx(c) = 0               \* sendmsg fails with EPIPE/ECONNRESET

\* the two views agree (C03, C09)
DisconnectedIffNoSender == \A c \in Chans : ~dead[c] => (RefTx(c) = 0 <=> AbsSenders(c) = 0)
BrokenPipeIffNoReceiver == \A c \in Chans : KernelSaysBrokenPipe(c) <=> ~AbsReceiverExists(c)
\* a descriptor exists exactly while a handle on it exists
DescriptorsMatchHandles ==
    \A c \in Chans : /\ (\A p \in Procs : (stx[c][p] > 0) <=> (sh[c][p] > 0))
                     /\ srx[c] = rh[c]
\* a destroyed socket stays destroyed and holds nobody's handle
DeadIsGone == \A c \in Chans : dead[c] => (rh[c] = 0 /\ InFlight("R", c) = 0)
=============================================================================
