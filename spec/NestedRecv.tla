----------------------------- MODULE NestedRecv -----------------------------
(***************************************************************************)
(* The receive side of the per-thread attachment tables of src/ipc.rs with *)
(* NESTING (the second half of C14): OpaqueIpcMessage::to swaps the        *)
(* message's attachment lists into the thread's two deserialisation tables,*)
(* the value's Deserialize impls take their entries by the indices found   *)
(* in the byte stream, and the tables are swapped back afterwards.  A      *)
(* Deserialize impl may itself receive (and decode) another message on the *)
(* same thread: that inner `to` swaps its own lists in and must hand the   *)
(* enclosing decode its tables back untouched.                             *)
(*                                                                         *)
(* A value is a script of slots  D data | S sender | R receiver | M region *)
(* | NR(inner): a receive, inside the Deserialize impl of this position, of*)
(* a message whose value is the script `inner` | NX: a receive, inside the *)
(* Deserialize impl, of a message WITHOUT attachments whose bytes name     *)
(* channel index 0 (a mismatched or corrupt payload, C16): that decode must*)
(* fail without touching the enclosing message's attachments, and the      *)
(* enclosing Deserialize impl goes on.                                     *)
(***************************************************************************)
EXTENDS Naturals, Sequences, FiniteSets, TLC

CONSTANTS MaxDepth, MaxLen,
          InitMode,     \* "all" | "random"
          ToVariant     \* "swap" : the tables are swapped back (the code)
                        \* "clear": the tables are cleared on exit (wrong on purpose)
                        \* "noinstall": a message without attachments is decoded without installing its (empty)
                        \*          lists, i.e. against whatever the tables hold (wrong on purpose)

Basic == {[k |-> x, inner |-> <<>>] : x \in {"D", "S", "R", "M", "NX"}}
SeqsUpTo(S, n) == UNION {[1..k -> S] : k \in 0..n}
RECURSIVE Scripts(_)
Scripts(d) == IF d = 0 THEN SeqsUpTo(Basic, MaxLen)
              ELSE SeqsUpTo(Basic \cup {[k |-> "NR", inner |-> s] : s \in Scripts(d - 1)}, MaxLen)

RECURSIVE RandScript(_), RandSeq(_, _)
MkSlot(k, d) == IF k \in {"NR", "NR2"} THEN [k |-> "NR", inner |-> RandScript(d - 1)] ELSE [k |-> k, inner |-> <<>>]
RandSlot(d) == MkSlot(RandomElement(IF d = 0 THEN {"D", "S", "R", "M", "NX"} ELSE {"D", "S", "R", "M", "NX", "NR", "NR2"}), d)
RandSeq(n, d) == IF n = 0 THEN <<>> ELSE Append(RandSeq(n - 1, d), RandSlot(d))
RandScript(d) == RandSeq(RandomElement(0..MaxLen), d)

VARIABLES script, chosen,
          stack,           \* decodes in progress, innermost last
          tabCh, tabShm,   \* the thread's tables: attachment ids, 0 = taken
          nextAtt,         \* attachment ids are handed out per message, in slot order
          done             \* finished decodes: [path, own, got, ok]
vars == <<script, chosen, stack, tabCh, tabShm, nextAtt, done>>

IsCh(s) == s.k \in {"S", "R"}
AttSlots(s) == SelectSeq(s, LAMBDA x : x.k \in {"S", "R", "M"})
\* the attachment lists of the message carrying value s, ids starting at a
Own(s, a) == [p \in 1..Len(AttSlots(s)) |-> [k |-> AttSlots(s)[p].k, att |-> a + p - 1]]
ChList(s, a) == LET o == Own(s, a) IN [p \in 1..Len(SelectSeq(o, LAMBDA x : x.k # "M")) |-> SelectSeq(o, LAMBDA x : x.k # "M")[p].att]
ShmList(s, a) == LET o == Own(s, a) IN [p \in 1..Len(SelectSeq(o, LAMBDA x : x.k = "M")) |-> SelectSeq(o, LAMBDA x : x.k = "M")[p].att]

Frame(s, path, a) == [todo |-> s, path |-> path, savedCh |-> tabCh, savedShm |-> tabShm, own |-> Own(s, a),
                      got |-> <<>>, cpos |-> 0, mpos |-> 0, failed |-> FALSE, n |-> 0, bad |-> FALSE]

Init == /\ script = <<>> /\ chosen = FALSE /\ stack = <<>> /\ tabCh = <<>> /\ tabShm = <<>>
        /\ nextAtt = 1 /\ done = <<>>

\* the program receives the outer message and calls to(): swap the message's lists in
Choose ==
    /\ ~chosen /\ chosen' = TRUE
    /\ script' \in (IF InitMode = "random" THEN {RandScript(MaxDepth)} ELSE Scripts(MaxDepth))
    /\ stack' = <<Frame(script', <<>>, nextAtt)>>
    /\ tabCh' = ChList(script', nextAtt) /\ tabShm' = ShmList(script', nextAtt)
    /\ nextAtt' = nextAtt + Len(AttSlots(script'))
    /\ UNCHANGED done

Top == stack[Len(stack)]
SetTop(f) == [stack EXCEPT ![Len(stack)] = f]
Ready == stack # <<>> /\ ~Top.failed /\ Top.todo # <<>>

ReadData ==
    /\ Ready /\ Head(Top.todo).k = "D"
    /\ stack' = SetTop([Top EXCEPT !.todo = Tail(@)])
    /\ UNCHANGED <<script, chosen, tabCh, tabShm, nextAtt, done>>

\* an embedded endpoint: the byte stream holds its position among the message's channels
ReadChannel ==
    /\ Ready /\ IsCh(Head(Top.todo))
    /\ LET i == Top.cpos + 1
       IN IF i <= Len(tabCh) /\ tabCh[i] # 0
            THEN /\ stack' = SetTop([Top EXCEPT !.todo = Tail(@), !.cpos = @ + 1,
                                                !.got = Append(@, [k |-> Head(Top.todo).k, att |-> tabCh[i]])])
                 /\ tabCh' = [tabCh EXCEPT ![i] = 0]
            ELSE /\ stack' = SetTop([Top EXCEPT !.failed = TRUE])       \* "index out of bounds or already used"
                 /\ UNCHANGED tabCh
    /\ UNCHANGED <<script, chosen, tabShm, nextAtt, done>>

ReadRegion ==
    /\ Ready /\ Head(Top.todo).k = "M"
    /\ LET i == Top.mpos + 1
       IN IF i <= Len(tabShm) /\ tabShm[i] # 0
            THEN /\ stack' = SetTop([Top EXCEPT !.todo = Tail(@), !.mpos = @ + 1,
                                                !.got = Append(@, [k |-> "M", att |-> tabShm[i]])])
                 /\ tabShm' = [tabShm EXCEPT ![i] = 0]
            ELSE /\ stack' = SetTop([Top EXCEPT !.failed = TRUE])
                 /\ UNCHANGED tabShm
    /\ UNCHANGED <<script, chosen, tabCh, nextAtt, done>>

\* a Deserialize impl receives another message and decodes it: to() swaps that message's lists in
EnterNested ==
    /\ Ready /\ Head(Top.todo).k = "NR"
    /\ LET s == Head(Top.todo).inner
       IN /\ stack' = Append(SetTop([Top EXCEPT !.todo = Tail(@), !.n = @ + 1]),
                             Frame(s, Append(Top.path, Top.n + 1), nextAtt))
          /\ tabCh' = ChList(s, nextAtt) /\ tabShm' = ShmList(s, nextAtt)
          /\ nextAtt' = nextAtt + Len(AttSlots(s))
    /\ UNCHANGED <<script, chosen, done>>

\* a Deserialize impl receives a message without attachments whose bytes say "the sender at channel index 0"
BadFrame(path) == [todo |-> <<[k |-> "S", inner |-> <<>>]>>, path |-> path, savedCh |-> tabCh, savedShm |-> tabShm,
                   own |-> <<>>, got |-> <<>>, cpos |-> 0, mpos |-> 0, failed |-> FALSE, n |-> 0, bad |-> TRUE]
EnterBad ==
    /\ Ready /\ Head(Top.todo).k = "NX"
    /\ stack' = Append(SetTop([Top EXCEPT !.todo = Tail(@), !.n = @ + 1]), BadFrame(Append(Top.path, Top.n + 1)))
    /\ IF ToVariant = "noinstall" THEN UNCHANGED <<tabCh, tabShm>>      \* decoded against the enclosing message's lists
       ELSE tabCh' = <<>> /\ tabShm' = <<>>
    /\ UNCHANGED <<script, chosen, nextAtt, done>>

\* to() returns: what was not taken is dropped with the message, the enclosing decode gets its tables back
Leave ==
    /\ stack # <<>> /\ (Top.failed \/ Top.todo = <<>>)
    /\ LET f == Top
           rest == SubSeq(stack, 1, Len(stack) - 1)
       IN /\ done' = Append(done, [path |-> f.path, own |-> f.own, got |-> f.got, ok |-> ~f.failed, bad |-> f.bad])
          /\ IF f.bad /\ ToVariant = "noinstall" THEN UNCHANGED <<tabCh, tabShm>>
             ELSE IF ToVariant \in {"swap", "noinstall"} THEN tabCh' = f.savedCh /\ tabShm' = f.savedShm
             ELSE tabCh' = <<>> /\ tabShm' = <<>>
          /\ stack' = IF rest = <<>> \/ ~f.failed \/ f.bad THEN rest      \* the harness' impl swallows a bad nested receive
                      ELSE [rest EXCEPT ![Len(rest)] = [@ EXCEPT !.failed = TRUE]]   \* the inner error propagates
    /\ UNCHANGED <<script, chosen, nextAtt>>

Next == Choose \/ ReadData \/ ReadChannel \/ ReadRegion \/ EnterNested \/ EnterBad \/ Leave
Spec == Init /\ [][Next]_vars /\ WF_vars(Next)

Done == chosen /\ stack = <<>>
\* C14: inner and outer message each arrive with exactly their own attachments, correctly placed
SelfContained == \A j \in 1..Len(done) :
                    IF done[j].bad THEN ~done[j].ok /\ done[j].got = <<>>      \* C16: an error, and nobody else's endpoint
                    ELSE done[j].ok /\ done[j].got = done[j].own
\* ... and between top-level calls the tables are empty again
NothingRetained == Done => tabCh = <<>> /\ tabShm = <<>>
Terminates == <>Done
=============================================================================
