---------------------------- MODULE RouterTrace ----------------------------
(***************************************************************************)
(* Trace validation for Router.tla: executions of a real RouterProxy and   *)
(* its router thread, recorded by the hooks in src/router.rs plus the      *)
(* harness' own events (h.*: which route a proxy call is about, sends,     *)
(* callback entries, guard drops), are replayed against the model.         *)
(*                                                                         *)
(* Proxy-side events map one-to-one to Router's proxy actions (they are    *)
(* emitted under the proxy mutex).  On the router side select+dispatch is  *)
(* fused: a handler call consumes the next message of its route, a closed  *)
(* event requires the route to be disconnected and drained.  An operation  *)
(* of another thread whose effect lies between two of its events (a send,  *)
(* a sender drop, the proxy drop, the message a locked proxy is about to   *)
(* queue) is placed as late as possible: at its second event, or earlier   *)
(* at the router event that needs it (interval semantics, DESIGN 4.5).     *)
(***************************************************************************)
EXTENDS Router, Json, IOUtils, TLCExt

VARIABLES
    l,          \* next trace line
    idmap,      \* receiver-set id -> route
    curr,       \* route whose handler is executing (0 = none)
    pendSend,   \* pendSend[r]: a send on route r is in progress (its message not yet placed)
    pendDrop,   \* routes whose sender drop is in progress
    pendProxy,  \* the proxy drop is in progress
    opr,        \* opr[p]: route of the add_route call proxy p is making
    panics,     \* panics recorded
    observed    \* routes whose handler is a harness callback (calls and drops are logged);
                \* the others forward to a crossbeam channel inside the library

tvars == <<vars, l, idmap, curr, pendSend, pendDrop, pendProxy, opr, panics, observed>>
TUnch == UNCHANGED <<idmap, curr, pendSend, pendDrop, pendProxy, opr, panics, observed>>

Rec == ndJsonDeserialize(IOEnv.TRACE)
E == Rec[l]
IsEv(k) == l <= Len(Rec) /\ Rec[l].ev = k /\ l' = l + 1

TraceInit ==
    /\ Init /\ l = 1 /\ idmap = <<>> /\ curr = 0
    /\ pendSend = [r \in Routes |-> FALSE] /\ pendDrop = {} /\ pendProxy = FALSE
    /\ opr = [p \in Proxies |-> 0] /\ panics = 0 /\ observed = {}

AllUnch == UNCHANGED vars

\* a new scenario: a fresh proxy, router and routes
HScenario ==
    /\ IsEv("h.scenario")
    /\ lock' = 0 /\ flag' = FALSE /\ msgq' = <<>> /\ wakes' = 0 /\ proxyAlive' = TRUE
    /\ ppc' = [p \in Proxies |-> "idle"] /\ pi' = [p \in Proxies |-> 1]
    /\ rq' = [r \in Routes |-> <<>>] /\ sent' = [r \in Routes |-> 0] /\ ropen' = [r \in Routes |-> TRUE]
    /\ where' = [r \in Routes |-> "prog"]
    /\ rt' = "select" /\ batch' = <<>> /\ stopping' = FALSE
    /\ called' = <<>> /\ dropped' = <<>> /\ returned' = {}
    /\ idmap' = <<>> /\ curr' = 0
    /\ pendSend' = [r \in Routes |-> FALSE] /\ pendDrop' = {} /\ pendProxy' = FALSE
    /\ opr' = [p \in Proxies |-> 0] /\ panics' = panics /\ observed' = {}

HRoute ==
    /\ IsEv("h.route")
    /\ observed' = IF E.x = 1 THEN observed \cup {E.r} ELSE observed
    /\ AllUnch /\ UNCHANGED <<idmap, curr, pendSend, pendDrop, pendProxy, opr, panics>>

-----------------------------------------------------------------------------
(* harness events *)

HAdd ==     \* proxy p is about to call add_route for route r
    /\ IsEv("h.add") /\ opr' = [opr EXCEPT ![E.p] = E.r]
    /\ AllUnch /\ UNCHANGED <<idmap, curr, pendSend, pendDrop, pendProxy, panics, observed>>

HSend ==
    /\ IsEv("h.send") /\ ~pendSend[E.r]
    /\ pendSend' = [pendSend EXCEPT ![E.r] = TRUE]
    /\ AllUnch /\ UNCHANGED <<idmap, curr, pendDrop, pendProxy, opr, panics, observed>>

PlaceSend(r) ==     \* the message of the send in progress enters the route's queue
    /\ sent' = [sent EXCEPT ![r] = @ + 1]
    /\ rq' = IF where[r] = "gone" THEN rq ELSE [rq EXCEPT ![r] = Append(@, sent[r] + 1)]

HSent ==
    /\ IsEv("h.sent")
    /\ IF pendSend[E.r]
         THEN PlaceSend(E.r) /\ pendSend' = [pendSend EXCEPT ![E.r] = FALSE]
         ELSE UNCHANGED <<sent, rq, pendSend>>
    /\ UNCHANGED <<lock, flag, msgq, wakes, proxyAlive, ppc, pi, ropen, where, rt, batch, stopping, called,
                   dropped, returned, idmap, curr, pendDrop, pendProxy, opr, panics, observed>>

HSenderDrop ==
    /\ IsEv("h.senderdrop") /\ pendDrop' = pendDrop \cup {E.r}
    /\ AllUnch /\ UNCHANGED <<idmap, curr, pendSend, pendProxy, opr, panics, observed>>

HSenderDropped ==
    /\ IsEv("h.senderdropped")
    /\ ropen' = [ropen EXCEPT ![E.r] = FALSE] /\ pendDrop' = pendDrop \ {E.r}
    /\ UNCHANGED <<lock, flag, msgq, wakes, proxyAlive, ppc, pi, rq, sent, where, rt, batch, stopping, called,
                   dropped, returned, idmap, curr, pendSend, pendProxy, opr, panics, observed>>

HDropProxy ==
    /\ IsEv("h.dropproxy") /\ pendProxy' = TRUE
    /\ AllUnch /\ UNCHANGED <<idmap, curr, pendSend, pendDrop, opr, panics, observed>>

HProxyDropped ==
    /\ IsEv("h.proxydropped") /\ proxyAlive' = FALSE /\ pendProxy' = FALSE
    /\ UNCHANGED <<lock, flag, msgq, wakes, ppc, pi, rq, sent, ropen, where, rt, batch, stopping, called,
                   dropped, returned, idmap, curr, pendSend, pendDrop, opr, panics, observed>>

\* a callback is entered: the handler being executed is the one of this route, the message is the
\* next one of this route (C07: own handler, once, in order)
HCallback ==
    /\ IsEv("h.cb")
    /\ curr = E.r
    /\ Len(CallsOf(E.r)) > 0 /\ CallsOf(E.r)[Len(CallsOf(E.r))][2] = E.x
    /\ AllUnch /\ TUnch

\* a callback (with what it owns) is dropped: exactly once per route
HGuardDrop ==
    /\ IsEv("h.guarddrop")
    /\ ~Gone(E.r)
    /\ dropped' = Append(dropped, E.r)
    /\ where' = [where EXCEPT ![E.r] = "gone"]
    /\ UNCHANGED <<lock, flag, msgq, wakes, proxyAlive, ppc, pi, rq, sent, ropen, rt, batch, stopping, called,
                   returned>> /\ TUnch

HPanic ==
    /\ IsEv("panic") /\ panics' = panics + 1
    /\ AllUnch /\ UNCHANGED <<idmap, curr, pendSend, pendDrop, pendProxy, opr, observed>>

-----------------------------------------------------------------------------
(* proxy events (emitted while holding the mutex) *)

PUnchT == UNCHANGED <<rq, sent, ropen, rt, batch, stopping, called, returned, dropped>>

TAddLocked ==   \* mutex acquired; the logged flag must be the model's
    /\ IsEv("router.add.locked.enter")
    /\ lock = 0 /\ (E.shutdown = 1) = flag
    /\ lock' = E.p /\ ppc' = [ppc EXCEPT ![E.p] = "add.locked"]
    /\ UNCHANGED <<flag, msgq, wakes, proxyAlive, pi, where>> /\ PUnchT /\ TUnch

QueueAdd(p) ==
    /\ msgq' = Append(msgq, [t |-> "add", r |-> opr[p]])
    /\ where' = [where EXCEPT ![opr[p]] = "msgq"]
    /\ ppc' = [ppc EXCEPT ![p] = "add.msg"]

TAddMsg ==
    /\ IsEv("router.add.msg")
    /\ IF ppc[E.p] = "add.locked"
         THEN ~flag /\ QueueAdd(E.p)
         ELSE ppc[E.p] = "add.msg" /\ UNCHANGED <<msgq, where, ppc>>      \* placed earlier
    /\ UNCHANGED <<lock, flag, wakes, proxyAlive, pi>> /\ PUnchT /\ TUnch

TAddLeave ==    \* the proxy leaves add_route (mutex released next)
    /\ IsEv("router.add.locked.leave") /\ lock = E.p
    /\ IF ppc[E.p] = "add.locked"
         THEN \* returned because of the shutdown flag: the route is dropped, never invoked
              /\ flag /\ wakes' = wakes /\ where' = where
         ELSE /\ ppc[E.p] = "add.msg" /\ wakes' = wakes + 1 /\ where' = where
    /\ lock' = 0 /\ ppc' = [ppc EXCEPT ![E.p] = "idle"]
    /\ UNCHANGED <<flag, msgq, proxyAlive, pi>> /\ PUnchT /\ TUnch

TShFlag ==      \* shutdown(): mutex acquired, flag was clear, now set
    /\ IsEv("router.shutdown.flag")
    /\ lock = 0 /\ ~flag
    /\ lock' = E.p /\ flag' = TRUE /\ ppc' = [ppc EXCEPT ![E.p] = "sh.flag"]
    /\ UNCHANGED <<msgq, wakes, proxyAlive, pi, where>> /\ PUnchT /\ TUnch

TShMsg ==       \* wake-up and Shutdown message are out
    /\ IsEv("router.shutdown.msg")
    /\ IF ppc[E.p] = "sh.flag"
         THEN /\ msgq' = Append(msgq, [t |-> "shutdown", r |-> E.p]) /\ wakes' = wakes + 1
              /\ ppc' = [ppc EXCEPT ![E.p] = "sh.wait"]
         ELSE ppc[E.p] \in {"sh.wait", "sh.acked"} /\ UNCHANGED <<msgq, wakes, ppc>>
    /\ UNCHANGED <<lock, flag, proxyAlive, pi, where>> /\ PUnchT /\ TUnch

TShAcked ==     \* ack_receiver.recv() returned: the router must have taken the message. The mutex is
                \* released between this event and the leave event (which is emitted after the guard
                \* is gone), so it counts as free from here on.
    /\ IsEv("router.shutdown.acked")
    /\ ppc[E.p] = "sh.acked" /\ lock = E.p
    /\ lock' = 0
    /\ UNCHANGED <<flag, msgq, wakes, proxyAlive, ppc, pi, where>> /\ PUnchT /\ TUnch

TShLeave ==     \* shutdown() returns
    /\ IsEv("router.shutdown.leave")
    /\ IF ppc[E.p] = "sh.acked"
         THEN TRUE
         ELSE \* the idempotent path: the flag was already set
              ppc[E.p] = "idle" /\ flag
    /\ ppc' = [ppc EXCEPT ![E.p] = "idle"]
    /\ returned' = returned \cup {E.p}
    \* C17: when shutdown returns, every registered callback has been dropped
    /\ \A r \in observed : where[r] \notin {"set", "msgq"}
    /\ UNCHANGED <<lock, flag, msgq, wakes, proxyAlive, pi, rq, sent, ropen, where, rt, batch, stopping, called,
                   dropped>> /\ TUnch

-----------------------------------------------------------------------------
(* router thread events *)

TWake ==        \* a wake-up message is being handled: msg_receiver.recv() comes next
    /\ IsEv("router.wake")
    /\ rt' = "taking"
    /\ UNCHANGED <<lock, flag, msgq, wakes, proxyAlive, ppc, pi, rq, sent, ropen, where, batch, stopping, called,
                   dropped, returned>> /\ TUnch

\* the queue as the router sees it: a message the lock holder is about to queue counts
HolderAddPending == lock # 0 /\ ppc[lock] = "add.locked" /\ ~flag
HolderShPending  == lock # 0 /\ ppc[lock] = "sh.flag"

TInstall ==     \* AddRoute taken, receiver added to the set under E.id, handler inserted
    /\ IsEv("router.install")
    /\ IF msgq # <<>>
         THEN /\ Head(msgq).t = "add"
              /\ idmap' = Append(idmap, [id |-> E.id, r |-> Head(msgq).r])
              /\ where' = [where EXCEPT ![Head(msgq).r] = "set"]
              /\ msgq' = Tail(msgq) /\ ppc' = ppc
         ELSE /\ HolderAddPending
              /\ idmap' = Append(idmap, [id |-> E.id, r |-> opr[lock]])
              /\ where' = [where EXCEPT ![opr[lock]] = "set"]
              /\ msgq' = msgq /\ ppc' = [ppc EXCEPT ![lock] = "add.msg"]
    /\ rt' = "select"
    /\ \A i \in 1..Len(idmap) : idmap[i].id # E.id         \* C06: ids of live members are unique
    /\ UNCHANGED <<lock, flag, wakes, proxyAlive, pi, rq, sent, ropen, batch, stopping, called, dropped,
                   returned, curr, pendSend, pendDrop, pendProxy, opr, panics, observed>>

TShutdownTake ==    \* Shutdown(ack) taken
    /\ IsEv("router.shutdown.take")
    /\ IF msgq # <<>>
         THEN /\ Head(msgq).t = "shutdown"
              /\ ppc' = [ppc EXCEPT ![Head(msgq).r] = "sh.acked"] /\ msgq' = Tail(msgq) /\ wakes' = wakes
         ELSE /\ HolderShPending
              /\ ppc' = [ppc EXCEPT ![lock] = "sh.acked"] /\ msgq' = msgq /\ wakes' = wakes
    /\ rt' = "select"
    /\ UNCHANGED <<lock, flag, proxyAlive, pi, rq, sent, ropen, where, batch, stopping, called, dropped,
                   returned>> /\ TUnch

RouteOfId(id) == (CHOOSE i \in 1..Len(idmap) : idmap[i].id = id)
KnownId(id) == \E i \in 1..Len(idmap) : idmap[i].id = id

THandler ==     \* a routed message is about to be passed to its handler
    /\ IsEv("router.handler.enter")
    /\ KnownId(E.id)
    /\ returned = {}                                   \* C17: no callback after shutdown returned
    /\ LET r == idmap[RouteOfId(E.id)].r
       IN /\ where[r] = "set"
          /\ IF rq[r] # <<>>
               THEN /\ called' = Append(called, <<r, Head(rq[r])>>)
                    /\ rq' = [rq EXCEPT ![r] = Tail(@)] /\ UNCHANGED <<sent, pendSend>>
               ELSE \* the message of the send in progress
                    /\ pendSend[r]
                    /\ called' = Append(called, <<r, sent[r] + 1>>)
                    /\ sent' = [sent EXCEPT ![r] = @ + 1] /\ rq' = rq
                    /\ pendSend' = [pendSend EXCEPT ![r] = FALSE]
          /\ curr' = r
    /\ UNCHANGED <<lock, flag, msgq, wakes, proxyAlive, ppc, pi, ropen, where, rt, batch, stopping, dropped,
                   returned, idmap, pendDrop, pendProxy, opr, panics, observed>>

THandlerLeave ==
    /\ IsEv("router.handler.leave") /\ curr' = 0
    /\ AllUnch /\ UNCHANGED <<idmap, pendSend, pendDrop, pendProxy, opr, panics, observed>>

TClosed ==      \* the set reported the route's channel closed: it is disconnected and drained
    /\ IsEv("router.closed.enter")
    /\ IF KnownId(E.id)
         THEN LET r == idmap[RouteOfId(E.id)].r
              IN /\ (~ropen[r] \/ r \in pendDrop)
                 /\ rq[r] = <<>> /\ ~pendSend[r]
                 /\ ropen' = [ropen EXCEPT ![r] = FALSE] /\ pendDrop' = pendDrop \ {r}
                 /\ UNCHANGED <<proxyAlive, pendProxy>>
         ELSE \* the wake-up channel: only once the proxy is (being) dropped
              /\ (~proxyAlive \/ pendProxy)
              /\ proxyAlive' = FALSE /\ pendProxy' = FALSE
              /\ UNCHANGED <<ropen, pendDrop>>
    /\ UNCHANGED <<lock, flag, msgq, wakes, ppc, pi, rq, sent, where, rt, batch, stopping, called, dropped,
                   returned, idmap, curr, pendSend, opr, panics, observed>>

TIgnore ==
    /\ l <= Len(Rec)
    /\ Rec[l].ev \in {"router.add.call", "router.shutdown.enter", "router.select.ret", "router.closed.leave",
                      "router.run.enter", "router.run.leave", "h.scenario.end"}
    /\ l' = l + 1
    /\ AllUnch /\ TUnch

TraceNext ==
    \/ HScenario \/ HRoute \/ HAdd \/ HSend \/ HSent \/ HSenderDrop \/ HSenderDropped \/ HDropProxy \/ HProxyDropped
    \/ HCallback \/ HGuardDrop \/ HPanic
    \/ TAddLocked \/ TAddMsg \/ TAddLeave \/ TShFlag \/ TShMsg \/ TShAcked \/ TShLeave
    \/ TWake \/ TInstall \/ TShutdownTake \/ THandler \/ THandlerLeave \/ TClosed \/ TIgnore

TraceSpec == TraceInit /\ [][TraceNext]_tvars

TraceAccepted ==
    LET d == TLCGet("stats").diameter IN
    IF d - 1 = Len(Rec) THEN TRUE
    ELSE Print(<<"@@REJECT", d, IF d <= Len(Rec) THEN Rec[d] ELSE "eof">>, FALSE)

TNoPanic == panics = 0
=============================================================================
