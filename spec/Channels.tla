------------------------------ MODULE Channels ------------------------------
(***************************************************************************)
(* The ideal model of the public API (src/ipc.rs): unbounded FIFO channels *)
(* whose endpoints and shared-memory regions can travel inside messages.   *)
(* This is the model C19 names, and the oracle for C03, C04, C05, C09.     *)
(*                                                                         *)
(* Every action is one public operation performed by one agent (a thread   *)
(* or process of the program) on handles that agent owns, together with    *)
(* the result the operation must have.  `log` records operations and       *)
(* results; behaviours are exported and replayed through the real crate,   *)
(* where each result is compared (binding B1).                             *)
(*                                                                         *)
(* Handles are numbered in allocation order; a message is                  *)
(*   [tag, big, slots]   slots \in Seq([k : {"D","S","R","M"}, c : Nat])   *)
(* "D" plain data, "S"/"R" the sending/receiving end of channel c, "M"     *)
(* shared-memory region c.  `big` asks for a multi-packet payload.         *)
(***************************************************************************)
EXTENDS Naturals, Sequences, FiniteSets, TLC

CONSTANTS
    Agents,        \* e.g. {0} or {0, 1}; agent 0 is the main thread
    MaxCh,         \* channels that may be created by NewChannel
    MaxRegions,
    MaxSlots,      \* slots per message
    MaxOps,        \* operations in the free phase
    MinOps,        \* the free phase is not left before this many operations (simulation only)
    MaxQueue,      \* queued messages per channel in the free phase
    Pick,          \* "all": every slot list is a successor (exhaustive runs);
                   \* "random": one randomly drawn slot list per send (simulation runs)
    MaxSets,       \* receiver sets that may be created
    RegionLens,    \* lengths of regions (abstract tokens for the harness' table of real lengths)
    Kinds,         \* subset of {"typed", "bytes"}: channel flavours NewChannel may create
    DiscardSets,   \* TRUE: messages with embedded endpoints may be drained through a set as well; the program throws
                   \*       them away WITHOUT deserialising them once the drain is over: what they carry dies with them
    FailSends      \* TRUE: a typed send may also be one whose value's serialisation reports an error after every
                   \* embedded endpoint/region has been visited (C14 seen from the handles: nothing is retained)

VARIABLES
    H,         \* live handles: set of [id, k, c, o]  (k: "S" | "R" | "M" | "X"; o: owning agent;
               \* "X" = a receiver set, c = its number)
    members,   \* members[x]: sequence of [id, c] - receivers added to set x (id as returned by add)
    nextX,     \* next receiver-set number
    nextH,     \* next handle id
    nextC,     \* next channel id
    ctype,     \* ctype[c] \in {"typed", "bytes"}
    q,         \* q[c]: queued messages of channel c
    rcv,       \* rcv[c] \in {"held", "transit", "gone"}: where c's receiving end is
    regs,      \* regs[r] = [len, tok]
    nextR,
    nextTag,
    alive,     \* agents that have not exited
    phase,     \* "free" | "probe" | "drain" | "done"
    nops,
    log        \* history of operations with their results

vars == <<H, nextH, nextC, ctype, q, rcv, regs, nextR, nextTag, alive, phase, nops, log, members, nextX>>

\* what TLC should identify states by when the history is not wanted
View == <<H, nextH, nextC, ctype, q, rcv, regs, nextR, alive, phase, members, nextX>>

Chans == 0..(nextC - 1)

HandleOf(id) == CHOOSE h \in H : h.id = id
Ids == {h.id : h \in H}
Owned(a) == {h \in H : h.o = a}

RECURSIVE SeqSum(_)
SeqSum(s) == IF s = <<>> THEN 0 ELSE Head(s) + SeqSum(Tail(s))

SlotCount(slots, k, c) == Cardinality({i \in 1..Len(slots) : slots[i].k = k /\ slots[i].c = c})
MsgCount(m, k, c) == SlotCount(m.slots, k, c)
QueueCount(c2, k, c) == SeqSum([i \in 1..Len(q[c2]) |-> MsgCount(q[c2][i], k, c)])

\* Number of sender handles of channel c that exist anywhere: held by an agent, or in transit
\* inside a queued message (queues of dead receivers are emptied eagerly, so every queue is live).
Senders(c) ==
    Cardinality({h \in H : h.k = "S" /\ h.c = c})
      + SeqSum([i \in 1..nextC |-> QueueCount(i - 1, "S", c)])

ReceiverExists(c) == rcv[c] # "gone"

\* Channels whose receiving ends die when the receivers of the channels in D die: every receiver
\* in transit inside a queue that is being discarded dies with it.
RECURSIVE DeathClosure(_)
DeathClosure(D) ==
    LET more == {c2 \in Chans : \E c \in D : QueueCount(c, "R", c2) > 0}
    IN IF more \subseteq D THEN D ELSE DeathClosure(D \cup more)

Kill(D0) ==
    LET D == DeathClosure(D0)
    IN /\ q' = [c \in DOMAIN q |-> IF c \in D THEN <<>> ELSE q[c]]
       /\ rcv' = [c \in DOMAIN rcv |-> IF c \in D THEN "gone" ELSE rcv[c]]

Init ==
    \* channel 0 is the bootstrap channel: its sender belongs to agent 0, its receiver to the last agent
    /\ LET last == CHOOSE a \in Agents : \A b \in Agents : b <= a
       IN H = {[id |-> 1, k |-> "S", c |-> 0, o |-> 0], [id |-> 2, k |-> "R", c |-> 0, o |-> last]}
    /\ nextH = 3 /\ nextC = 1
    /\ ctype = [c \in {0} |-> "typed"]
    /\ q = [c \in {0} |-> <<>>]
    /\ rcv = [c \in {0} |-> "held"]
    /\ regs = <<>> /\ nextR = 1 /\ nextTag = 1
    /\ alive = Agents
    /\ phase = "free" /\ nops = 0
    /\ log = <<>>
    /\ members = <<>> /\ nextX = 1

Logged(e) == log' = Append(log, e) /\ nops' = nops + 1
Free == phase = "free" /\ nops < MaxOps

-----------------------------------------------------------------------------
NewChannel(a, typ) ==
    /\ UNCHANGED <<members, nextX>>
    /\ Free /\ a \in alive /\ nextC <= MaxCh /\ typ \in Kinds
    /\ H' = H \cup {[id |-> nextH, k |-> "S", c |-> nextC, o |-> a],
                    [id |-> nextH + 1, k |-> "R", c |-> nextC, o |-> a]}
    /\ nextH' = nextH + 2 /\ nextC' = nextC + 1
    /\ ctype' = [c \in 0..nextC |-> IF c = nextC THEN typ ELSE ctype[c]]
    /\ q' = [c \in 0..nextC |-> IF c = nextC THEN <<>> ELSE q[c]]
    /\ rcv' = [c \in 0..nextC |-> IF c = nextC THEN "held" ELSE rcv[c]]
    /\ Logged([op |-> "new", a |-> a, typ |-> typ, c |-> nextC, hs |-> nextH, hr |-> nextH + 1])
    /\ UNCHANGED <<regs, nextR, nextTag, alive, phase>>

NewRegion(a, ln) ==
    /\ UNCHANGED <<members, nextX>>
    /\ Free /\ a \in alive /\ nextR <= MaxRegions
    /\ regs' = Append(regs, [len |-> ln, tok |-> nextTag])
    /\ H' = H \cup {[id |-> nextH, k |-> "M", c |-> nextR, o |-> a]}
    /\ nextH' = nextH + 1 /\ nextR' = nextR + 1 /\ nextTag' = nextTag + 1
    /\ Logged([op |-> "region", a |-> a, nh |-> nextH, r |-> nextR, len |-> ln, tok |-> nextTag])
    /\ UNCHANGED <<nextC, ctype, q, rcv, alive, phase>>

Clone(a, h) ==
    /\ UNCHANGED <<members, nextX>>
    /\ Free /\ h \in Owned(a) /\ h.k \in {"S", "M"}
    /\ H' = H \cup {[id |-> nextH, k |-> h.k, c |-> h.c, o |-> a]}
    /\ nextH' = nextH + 1
    /\ Logged([op |-> "clone", a |-> a, h |-> h.id, nh |-> nextH])
    /\ UNCHANGED <<nextC, ctype, q, rcv, regs, nextR, nextTag, alive, phase>>

SetChans(x) == {members[x][i].c : i \in 1..Len(members[x])}

Drop(a, h) ==
    /\ Free /\ h \in Owned(a)
    /\ H' = H \ {h}
    /\ IF h.k = "R" THEN Kill({h.c})
       ELSE IF h.k = "X" THEN Kill(SetChans(h.c))        \* a set takes its members with it
       ELSE UNCHANGED <<q, rcv>>
    /\ members' = IF h.k = "X" THEN [members EXCEPT ![h.c] = <<>>] ELSE members
    /\ UNCHANGED nextX
    /\ Logged([op |-> "drop", a |-> a, h |-> h.id])
    /\ UNCHANGED <<nextH, nextC, ctype, regs, nextR, nextTag, alive, phase>>

\* Reading a region through any handle gives the bytes it was created with.
Read(a, h) ==
    /\ UNCHANGED <<members, nextX>>
    /\ Free /\ h \in Owned(a) /\ h.k = "M"
    /\ Logged([op |-> "read", a |-> a, h |-> h.id, len |-> regs[h.c].len, tok |-> regs[h.c].tok])
    /\ UNCHANGED <<H, nextH, nextC, ctype, q, rcv, regs, nextR, nextTag, alive, phase>>

\* the "plain data" pseudo-handle
DSlot == [id |-> 0, k |-> "D", c |-> 0, o |-> 0]

\* The slot lists an agent may put into a message sent on channel c: handles it owns, each
\* receiver at most once, and a receiver only into a channel with a smaller id (acyclic family).
SlotLists(a, c) ==
    LET cand == {h \in Owned(a) : h.k \in {"S", "M"} \/ (h.k = "R" /\ h.c > c)}
        one  == {<<h>> : h \in cand} \cup {<<DSlot>>}
        RECURSIVE upto(_)
        upto(n) == IF n = 0 THEN {<<>>}
                   ELSE LET prev == upto(n - 1)
                        IN prev \cup {s \o t : s \in {p \in prev : Len(p) = n - 1}, t \in one}
    IN {s \in upto(MaxSlots) :
          \A i, j \in 1..Len(s) : (i # j /\ s[i] = s[j]) => s[i].k # "R"}

\* One random slot list (simulation): a receiver appears at most once, later repeats become data.
\* (The random draw is passed as an operator argument so that it is evaluated once.)
DedupReceivers(raw) ==
    [i \in 1..Len(raw) |-> IF raw[i].k = "R" /\ \E j \in 1..(i - 1) : raw[j] = raw[i] THEN DSlot ELSE raw[i]]

DrawSlots(cand, n) == DedupReceivers([i \in 1..n |-> RandomElement(cand)])

RandSlots(a, c) ==
    {DrawSlots({h \in Owned(a) : h.k \in {"S", "M"} \/ (h.k = "R" /\ h.c > c)} \cup {DSlot}, RandomElement(0..MaxSlots))}

SlotChoices(a, c) ==
    IF ctype[c] = "bytes" THEN {<<>>}
    ELSE IF Pick = "random" THEN RandSlots(a, c) ELSE SlotLists(a, c)

SlotOf(x) == [k |-> x.k, c |-> x.c]
HidOf(x)  == x.id

\* send(h, value): succeeds exactly when the receiving end still exists somewhere (C09).
\* Senders and regions are cloned into the message; receivers are moved into it (C04).
\* When the send fails the embedded receivers are gone with the value (C14).
SendMsg(a, h, hs, big, entry, fail) ==
    LET c      == h.c
        slots  == [i \in 1..Len(hs) |-> SlotOf(hs[i])]
        moved  == {hs[i] : i \in {j \in 1..Len(hs) : hs[j].k = "R"}}
        msg    == [tag |-> nextTag, big |-> big, slots |-> slots]
        ok     == ReceiverExists(c) /\ ~fail
    IN /\ H' = H \ moved
       /\ nextTag' = nextTag + 1
       /\ IF ok
            THEN /\ q' = [q EXCEPT ![c] = Append(@, msg)]
                 /\ rcv' = [c2 \in DOMAIN rcv |-> IF \E m \in moved : m.c = c2 THEN "transit" ELSE rcv[c2]]
            ELSE Kill({m.c : m \in moved})
       /\ Logged([op |-> entry, a |-> a, h |-> h.id, tag |-> nextTag, big |-> big,
                  slots |-> [i \in 1..Len(hs) |-> [k |-> slots[i].k, h |-> HidOf(hs[i])]],
                  res |-> IF ok THEN "ok" ELSE "err", fail |-> fail])
       /\ UNCHANGED <<nextH, nextC, ctype, regs, nextR, alive>>

\* fail = the value's Serialize impl reports an error at its end: the send returns an error, nothing is queued,
\* receivers that were moved into the value are gone with it, clones made for it are dropped again
Send(a, h, hs, big, fail) ==
    /\ UNCHANGED <<members, nextX>>
    /\ Free /\ h \in Owned(a) /\ h.k = "S"
    /\ Len(q[h.c]) < MaxQueue
    /\ fail => (FailSends /\ ctype[h.c] = "typed")
    /\ SendMsg(a, h, hs, big, "send", fail)
    /\ UNCHANGED phase

\* The handles a received message gives to the receiving agent, numbered in slot order.
Materialise(a, msg) ==
    LET n == Len(msg.slots)
        isH(i) == msg.slots[i].k # "D"
        idx(i) == Cardinality({j \in 1..(i - 1) : isH(j)})
    IN [i \in 1..n |-> IF isH(i) THEN nextH + idx(i) ELSE 0]

\* recv / try_recv / try_recv_timeout on a receiver the agent holds.
\*   message available            -> that message (FIFO), with working endpoints in their positions
\*   empty, some sender exists    -> "empty"  (never issued for the blocking variant)
\*   empty, no sender anywhere    -> "disc"                                   (C03)
RecvMsg(a, h, mode, entry) ==
    LET c == h.c IN
    IF q[c] # <<>>
      THEN LET msg == Head(q[c])
               ids == Materialise(a, msg)
               newH == {[id |-> ids[i], k |-> msg.slots[i].k, c |-> msg.slots[i].c, o |-> a] :
                          i \in {j \in 1..Len(ids) : ids[j] # 0}}
           IN /\ q' = [q EXCEPT ![c] = Tail(@)]
              /\ H' = H \cup newH
              /\ nextH' = nextH + Cardinality(newH)
              /\ rcv' = [c2 \in DOMAIN rcv |->
                           IF \E i \in 1..Len(msg.slots) : msg.slots[i].k = "R" /\ msg.slots[i].c = c2
                             THEN "held" ELSE rcv[c2]]
              /\ Logged([op |-> entry, a |-> a, h |-> h.id, mode |-> mode, res |-> "msg",
                         tag |-> msg.tag, big |-> msg.big,
                         \* a received region is compared with the bytes it was created with at once (C05): the
                         \* log carries its length token and fill token
                         slots |-> [i \in 1..Len(ids) |->
                                      [k |-> msg.slots[i].k, h |-> ids[i],
                                       len |-> IF msg.slots[i].k = "M" THEN regs[msg.slots[i].c].len ELSE 0,
                                       tok |-> IF msg.slots[i].k = "M" THEN regs[msg.slots[i].c].tok ELSE 0]]])
      ELSE /\ UNCHANGED <<q, H, nextH, rcv>>
           /\ Logged([op |-> entry, a |-> a, h |-> h.id, mode |-> mode,
                      res |-> IF Senders(c) = 0 THEN "disc" ELSE "empty",
                      tag |-> 0, big |-> FALSE, slots |-> <<>>])

Recv(a, h, mode) ==
    /\ UNCHANGED <<members, nextX>>
    /\ Free /\ h \in Owned(a) /\ h.k = "R"
    /\ mode \in {"recv", "try", "timeout"}
    /\ mode = "recv" => (q[h.c] # <<>> \/ Senders(h.c) = 0)     \* never issue a call that would block
    /\ RecvMsg(a, h, mode, "recv")
    /\ UNCHANGED <<nextC, ctype, regs, nextR, nextTag, alive, phase>>

\* IpcReceiverSet::new
SetNew(a) ==
    /\ Free /\ a \in alive /\ nextX <= MaxSets
    /\ H' = H \cup {[id |-> nextH, k |-> "X", c |-> nextX, o |-> a]}
    /\ nextH' = nextH + 1 /\ nextX' = nextX + 1
    /\ members' = Append(members, <<>>)
    /\ Logged([op |-> "setnew", a |-> a, nh |-> nextH])
    /\ UNCHANGED <<nextC, ctype, q, rcv, regs, nextR, nextTag, alive, phase>>

\* set.add(receiver): the receiver moves into the set; ids count up from 0 and are never reused (C06)
SetAdd(a, hx, hr) ==
    /\ Free /\ hx \in Owned(a) /\ hx.k = "X" /\ hr \in Owned(a) /\ hr.k = "R" /\ ctype[hr.c] = "typed"
    /\ H' = H \ {hr}
    /\ LET sid == Cardinality({e.id : e \in {log[i] : i \in {j \in 1..Len(log) : log[j].op = "setadd" /\ log[j].x = hx.id}}})
       IN /\ members' = [members EXCEPT ![hx.c] = Append(@, [id |-> sid, c |-> hr.c])]
          /\ Logged([op |-> "setadd", a |-> a, x |-> hx.id, h |-> hr.id, id |-> sid])
    /\ UNCHANGED <<nextH, nextC, ctype, q, rcv, regs, nextR, nextTag, alive, phase, nextX>>

\* select() until everything that is pending now has been reported: per member its queued messages in order and
\* then "closed" if no sender exists; closed members leave the set. (How many events one select call returns is
\* transport specific; the harness repeats select until it has seen `n` events.) Never issued when nothing is
\* pending (it would block).
PendingMember(m) == q[m.c] # <<>> \/ Senders(m.c) = 0
SetDrain(a, hx) ==
    /\ Free /\ hx \in Owned(a) /\ hx.k = "X"
    /\ \E i \in 1..Len(members[hx.c]) : PendingMember(members[hx.c][i])
    /\ LET ms == members[hx.c]
           \* only messages without embedded endpoints are drained through sets in generated programs
           simple == \A i \in 1..Len(ms) : \A k \in 1..Len(q[ms[i].c]) : \A t \in 1..Len(q[ms[i].c][k].slots) :
                        q[ms[i].c][k].slots[t].k = "D"
           closed == {i \in 1..Len(ms) : Senders(ms[i].c) = 0}
           evs == [i \in 1..Len(ms) |-> [id |-> ms[i].id,
                                          tags |-> [k \in 1..Len(q[ms[i].c]) |-> q[ms[i].c][k].tag],
                                          closed |-> i \in closed]]
           n == SeqSum([i \in 1..Len(ms) |-> Len(q[ms[i].c]) + (IF i \in closed THEN 1 ELSE 0)])
           \* receivers travelling inside the drained messages die with them (and what is queued for them, recursively);
           \* senders and regions inside them simply cease to exist with the emptied queues
           dead == DeathClosure({c2 \in Chans : \E i \in 1..Len(ms) : QueueCount(ms[i].c, "R", c2) > 0})
       IN /\ simple \/ DiscardSets
          /\ q' = [c \in DOMAIN q |-> IF (\E i \in 1..Len(ms) : ms[i].c = c) \/ c \in dead THEN <<>> ELSE q[c]]
          /\ rcv' = [c \in DOMAIN rcv |-> IF (\E i \in closed : ms[i].c = c) \/ c \in dead THEN "gone" ELSE rcv[c]]
          /\ members' = [members EXCEPT ![hx.c] = SelectSeq(ms, LAMBDA m : Senders(m.c) # 0)]
          /\ Logged([op |-> "setdrain", a |-> a, x |-> hx.id, n |-> n, evs |-> evs, discard |-> ~simple])
    /\ UNCHANGED <<H, nextH, nextC, ctype, regs, nextR, nextTag, alive, phase, nextX>>

\* An agent other than the main one ends: all its handles are dropped (thread end / process exit).
AgentExit(a) ==
    /\ Free /\ a \in alive /\ a # 0
    /\ alive' = alive \ {a}
    /\ H' = H \ Owned(a)
    /\ Kill({h.c : h \in {x \in Owned(a) : x.k = "R"}} \cup UNION {SetChans(h.c) : h \in {x \in Owned(a) : x.k = "X"}})
    /\ members' = [x \in DOMAIN members |-> IF \E h \in Owned(a) : h.k = "X" /\ h.c = x THEN <<>> ELSE members[x]]
    /\ UNCHANGED nextX
    /\ Logged([op |-> "exit", a |-> a])
    /\ UNCHANGED <<nextH, nextC, ctype, regs, nextR, nextTag, phase>>

-----------------------------------------------------------------------------
FreeStep ==
    \E a \in Agents :
       \/ \E typ \in Kinds : NewChannel(a, typ)
       \/ \E ln \in RegionLens : NewRegion(a, ln)
       \/ SetNew(a)
       \/ \E hx \in Owned(a), hr \in Owned(a) : SetAdd(a, hx, hr)
       \/ \E hx \in Owned(a) : SetDrain(a, hx)
       \/ \E h \in Owned(a) :
            \/ Clone(a, h) \/ Drop(a, h) \/ Read(a, h)
            \/ \E mode \in {"recv", "try", "timeout"} : Recv(a, h, mode)
            \/ h.k = "S" /\ \E big \in BOOLEAN :
                 \E hs \in SlotChoices(a, h.c) : \E fail \in (IF FailSends THEN BOOLEAN ELSE {FALSE}) :
                     Send(a, h, hs, big, fail)
       \/ AgentExit(a)

(* Epilogue: identity probes.  After the free phase every remaining sender handle sends one     *)
(* tagged message, then every remaining receiver is drained; the expected tags (and the final   *)
(* "empty"/"disc") make the harness check that each handle is an end of the channel the model   *)
(* says it is, and that nothing was lost, duplicated or reordered.                              *)

EndFree ==
    /\ UNCHANGED <<members, nextX>>
    /\ phase = "free" /\ (nops >= MinOps \/ H = {})
    /\ phase' = "probe"
    /\ UNCHANGED <<H, nextH, nextC, ctype, q, rcv, regs, nextR, nextTag, alive, nops, log>>

MinId(S) == CHOOSE x \in S : \A y \in S : x.id <= y.id

\* senders not yet probed: those with an id greater than the last probed one
Probed == {e.h : e \in {log[i] : i \in {j \in 1..Len(log) : log[j].op = "probe"}}}
ToProbe == {h \in H : h.k = "S" /\ h.id \notin Probed}

Probe ==
    /\ UNCHANGED <<members, nextX>>
    /\ phase = "probe"
    /\ IF ToProbe = {}
         THEN /\ phase' = "drain"
              /\ UNCHANGED <<H, nextH, nextC, ctype, q, rcv, regs, nextR, nextTag, alive, nops, log>>
         ELSE LET h == MinId(ToProbe)
              IN /\ SendMsg(h.o, h, <<>>, FALSE, "probe", FALSE)
                 /\ UNCHANGED phase

\* receivers still to be drained: held ones whose last drain result was a message (or none yet)
Finished == {e.h : e \in {log[i] : i \in {j \in 1..Len(log) :
                              log[j].op = "drain" /\ log[j].res # "msg"}}}
ToDrain == {h \in H : h.k = "R" /\ h.id \notin Finished}

Drain ==
    /\ UNCHANGED <<members, nextX>>
    /\ phase = "drain"
    /\ IF ToDrain = {}
         THEN /\ phase' = "done"
              /\ UNCHANGED <<H, nextH, nextC, ctype, q, rcv, regs, nextR, nextTag, alive, nops, log>>
         ELSE LET h == MinId(ToDrain)
              IN /\ RecvMsg(h.o, h, "try", "drain")
                 /\ UNCHANGED <<nextC, ctype, regs, nextR, nextTag, alive, phase>>

Next == FreeStep \/ EndFree \/ Probe \/ Drain

Spec == Init /\ [][Next]_vars

-----------------------------------------------------------------------------
(* Properties of the ideal model itself (sanity of the oracle; the substance of C03/C04/C09 is  *)
(* that the implementation conforms to it).                                                      *)

TypeOK ==
    /\ \A h \in H : h.id < nextH /\ h.o \in Agents
    /\ \A h1, h2 \in H : h1.id = h2.id => h1 = h2
    /\ DOMAIN q = Chans /\ DOMAIN rcv = Chans

\* at most one receiving end per channel, and it is where rcv says it is
OneReceiver ==
    \A c \in Chans :
       LET held    == Cardinality({h \in H : h.k = "R" /\ h.c = c})
                        + Cardinality({x \in DOMAIN members : \E i \in 1..Len(members[x]) : members[x][i].c = c})
           transit == SeqSum([i \in 1..nextC |-> QueueCount(i - 1, "R", c)])
       IN /\ held + transit = (IF rcv[c] = "gone" THEN 0 ELSE 1)
          /\ rcv[c] = "held" <=> held = 1
          /\ rcv[c] = "transit" <=> transit = 1

\* a dead receiver has an empty queue (so "in transit inside a live queue" is simply "in a queue")
DeadQueuesEmpty == \A c \in Chans : rcv[c] = "gone" => q[c] = <<>>

\* C03 as a statement about the log: "disc" only when no sender existed and nothing was queued
\* (checked on the state in which the result is produced, see RecvMsg); as an invariant over the
\* history: tags are delivered at most once and in increasing order per channel.
DeliveredOnce ==
    LET got == [i \in 1..Len(log) |-> IF log[i].op \in {"recv", "drain"} /\ log[i].res = "msg"
                                        THEN log[i].tag ELSE 0]
    IN \A i, j \in 1..Len(log) : (i < j /\ got[i] # 0) => got[i] # got[j]

Done == phase = "done"
=============================================================================
