----------------------------- MODULE FragTrace -----------------------------
(***************************************************************************)
(* Trace validation for Frag: executions recorded from the real code (the  *)
(* system-call hooks of src/verif.rs, one sender thread and one receiver   *)
(* thread per case) are replayed through Frag's parameterised actions.     *)
(* Sizes come from the log (they are incidental); the effects, the kernel  *)
(* premises K1/K2/K4 and every invariant of Frag are checked on each step. *)
(*                                                                         *)
(* Interval placement: a transmission is placed at its *call* event (with  *)
(* the result of the matching return), a reception at its *return* event;  *)
(* the real enqueue lies after the call and the real dequeue before the    *)
(* return, so this order is consistent with the real one.                  *)
(***************************************************************************)
EXTENDS Frag, Json, IOUtils, TLCExt

VARIABLE l            \* next line of the trace

Rec == ndJsonDeserialize(IOEnv.TRACE)

tvars == <<vars, l>>

E == Rec[l]
IsEv(k) == l <= Len(Rec) /\ Rec[l].e = k /\ l' = l + 1

TraceInit ==
    /\ l = 1
    /\ len = 0 /\ natt = 0
    /\ sb = SysSendBuf /\ pos = 0 /\ att = 0 /\ fh = <<>>
    /\ spc = "idle"
    /\ ws = <<>> /\ wd = <<>> /\ dedOpen = FALSE
    /\ rpc = "idle" /\ rtotal = 0 /\ rlen = 0 /\ rcap = 0 /\ rfds = 0
    /\ rok = TRUE /\ trunc = FALSE

\* A new case: a fresh channel and message.
TCase ==
    /\ IsEv("Case")
    /\ len' = E.len /\ natt' = E.natt
    /\ sb' = SysSendBuf /\ pos' = 0 /\ att' = 0 /\ fh' = <<>>
    /\ spc' = "start"
    /\ ws' = <<>> /\ wd' = <<>> /\ dedOpen' = FALSE
    /\ rpc' = "first" /\ rtotal' = 0 /\ rlen' = 0 /\ rcap' = 0 /\ rfds' = 0
    /\ rok' = TRUE /\ trunc' = FALSE

\* sendmsg on the channel's socket
TSendFirst ==
    /\ IsEv("SendFirst")
    /\ E.total = len                          \* the header announces the message's length
    /\ \/ /\ spc = "start"                    \* unfragmented attempt
          /\ E.n = len /\ E.nfds = natt
          /\ TrySingleAt(E.ok = 0, E.giveup = 1)
       \/ /\ spc = "frag" /\ pos = 0          \* first fragment: carries the dedicated receiver
          /\ E.nfds = natt + 1
          /\ SendFragmentAt(E.n, E.ok = 0, E.giveup = 1)

\* socketpair inside send(): the code decided to fragment
TMkDed ==
    /\ IsEv("MkDed")
    /\ \/ spc = "mkded" /\ spc' = "frag"
       \/ spc = "start" /\ spc' = "frag"
    /\ dedOpen' = TRUE
    /\ UNCHANGED <<sb, pos, att, fh, ws, wd>> /\ SUnch

\* send on the dedicated socket
TSendFollow ==
    /\ IsEv("SendFollow")
    /\ spc = "frag" /\ pos > 0
    /\ SendFragmentAt(pos + E.n, E.ok = 0, E.giveup = 1)

\* the sender closes its end of the dedicated socket
TCloseDed ==
    /\ IsEv("CloseDed")
    /\ dedOpen' = FALSE
    /\ UNCHANGED <<sb, pos, att, fh, ws, wd, spc>> /\ SUnch

\* send() returns; E.ok = 1 success, 0 error, -1 not recorded
TSendLeave ==
    /\ IsEv("SendLeave")
    /\ spc' = IF spc \in {"ok", "err"} THEN spc
              ELSE IF spc = "frag" /\ pos >= len THEN "ok" ELSE "err"
    /\ E.ok = 1 => spc' = "ok"                \* success is reported only for a complete send
    /\ E.ok = 0 => spc' = "err"
    /\ UNCHANGED <<sb, pos, att, fh, ws, wd, dedOpen>> /\ SUnch

\* recvmsg on the channel's socket returned E.res bytes
TRecvFirst ==
    /\ IsEv("RecvFirst")
    /\ ws # <<>>
    /\ LET p == Head(ws) IN
         /\ E.res = Hdr + Min(p.hi - p.lo, E.cap)          \* K1
         /\ E.total = p.total
         /\ E.nfds = Min(p.nfds, E.fdcap)                  \* K2
    /\ RecvFirstAt(E.cap, E.fdcap)

\* the window the code is about to offer for the next follow-up
TRecvWindow ==
    /\ IsEv("RecvWindow")
    /\ rpc = "follow"
    /\ E.wp = rlen /\ E.total = rtotal
    /\ E.ep <= E.capacity /\ E.ep <= rtotal /\ E.ep > E.wp       \* C18a
    /\ UNCHANGED vars

TRecvFollow ==
    /\ IsEv("RecvFollow")
    /\ IF E.res > 0
         THEN /\ wd # <<>> /\ E.res = Min(Head(wd).hi - Head(wd).lo, E.cap)   \* K1
              /\ RecvFollowAt(E.cap)
         ELSE /\ wd = <<>>
              /\ RecvFollowAt(E.cap)

TRecvLeave ==
    /\ IsEv("RecvLeave")
    /\ IF rpc = "follow" /\ rlen >= rtotal
         THEN RecvDone
         ELSE UNCHANGED vars
    /\ E.ok = 1 => rpc' = "ok"
    /\ E.ok = 0 => rpc' # "ok"

TraceNext ==
    \/ TCase \/ TSendFirst \/ TMkDed \/ TSendFollow \/ TCloseDed \/ TSendLeave
    \/ TRecvFirst \/ TRecvWindow \/ TRecvFollow \/ TRecvLeave

TraceSpec == TraceInit /\ [][TraceNext]_tvars

\* Accepted iff every line was consumed.
TraceAccepted ==
    LET d == TLCGet("stats").diameter IN
    IF d - 1 = Len(Rec) THEN TRUE
    ELSE Print(<<"@@REJECT", d, IF d <= Len(Rec) THEN Rec[d] ELSE "eof">>, FALSE)

TIntact          == spc # "idle" => Intact
TAttachOnce      == AttachOnce
TRetryAcceptable == RetryAcceptable
TBufferSafe      == spc # "idle" => BufferSafe
TNoMangle        == NoMangle
=============================================================================
