---------------------------- MODULE MCTransport ----------------------------
EXTENDS Transport, Json

Quiet == /\ \A s \in Senders : spc[s] \in {"done", "dead"}
         /\ rpc = "idle" /\ call > Len(Plan)

Export == Quiet => PrintT("@@" \o ToJson([sched |-> sched, rlog |-> rlog, slog |-> slog, falseOk |-> falseOk,
                                         delivered |-> [d \in 1..Len(delivered) |-> delivered[d][1][1]]]))
=============================================================================
