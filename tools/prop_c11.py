"""C11 - no descriptor, mapping or file is leaked, closed twice or inherited."""
import json
import os
import random
import time

import chancheck
import rescheck
from vlib import (build_harness, case_hash, log, require_ok, run_harness, seed, workdir, write_replay)


def run(tier):
    wd = workdir("c11")
    build_harness("os")
    violations, distinct, samples = [], set(), []
    states = transitions = validated = evaluations = 0
    plans = [
        ("bfs", "thread", dict(failsends=True, agents=(0,), maxch=2, maxreg=1, maxslots=1, maxops=3, regionlens=(2,))),
        ("sim-process", "process", dict(failsends=True, agents=(0, 1), maxch=3, maxreg=2, maxslots=2, maxops=20, minops=10, maxqueue=3,
                                        regionlens=(0, 1, 3, 4), kinds=("typed", "bytes"),
                                        simulate=30 if tier == "quick" else 400, depth=150, tlcseed=seed())),
        ("sim-thread", "thread", dict(failsends=True, agents=(0, 1), maxch=4, maxreg=2, maxslots=3, maxops=40, minops=20, maxqueue=4,
                                      regionlens=(0, 2, 5), kinds=("typed", "bytes"),
                                      simulate=20 if tier == "quick" else 400, depth=250, tlcseed=seed() + 1)),
    ]
    for name, mode, g in plans:
        t0 = time.time()
        r = chancheck.gen(wd, name, **g)
        require_ok(r, "MCChannels " + name)
        states += r.distinct
        transitions += r.generated
        behs = chancheck.behaviours(r, len(g.get("agents", (0,))))
        if name == "bfs" and tier == "quick" and len(behs) > 1500:
            behs = random.Random(seed()).sample(behs, 1500)
        raw = os.path.join(wd, name + ".ndjson")
        if os.path.exists(raw):
            os.remove(raw)
        for i, b in enumerate(behs):
            b["id"] = i
        p = run_harness("os", ["chan", mode], env={"IPC_VERIF_TRACE": raw, "IPC_VERIF_SENDBUF": 4096, "VERIF_LSFD": 1,
                                                   "RUST_BACKTRACE": "0"},
                        stdin="\n".join(json.dumps(b) for b in behs) + "\n", timeout=3000)
        nbad = 0
        got = 0
        for line in p.stdout.splitlines():
            if not line.startswith("{"):
                continue
            o = json.loads(line)
            if "id" not in o:
                continue
            got += 1
            b = behs[o["id"]]
            evaluations += 1
            distinct.add(case_hash(chancheck.classify(b)))
            why = None
            if not o.get("ok"):
                why = o.get("why")
            elif o.get("fd_delta") or o.get("map_delta"):
                why = "after dropping every handle the process holds %+d descriptors and %+d shared mappings" % (
                    o.get("fd_delta"), o.get("map_delta"))
            if why:
                nbad += 1
                if nbad <= 4:
                    rp = write_replay("C11", "%s-%d" % (name, o["id"]), {"property": "C11", "kind": "chan", "variant": "os",
                                      "mode": mode, "sb": 4096, "behaviour": b, "verdict": o})
                    violations.append({"what": "resource accounting [%s]: %s" % (name, why), "replay": rp,
                                       "key": "c11:" + why[:50]})
        if got < len(behs):
            violations.append({"what": "harness died after %d of %d behaviours: %s" % (got, len(behs), p.stderr[-400:]),
                               "replay": write_replay("C11", name + "-died", {"property": "C11", "stderr": p.stderr[-3000:]}),
                               "key": "c11:died"})
        compact = os.path.join(wd, name + ".res.ndjson")
        evs = rescheck.convert([raw], compact)
        tr, why = rescheck.validate(wd, name, compact)
        require_ok(tr, "ResourcesTrace " + name)
        if tr.violation:
            rp = write_replay("C11", name + "-ledger", {"property": "C11", "kind": "ledger", "why": why,
                                                        "tlc": (tr.trace or "")[-4000:]})
            violations.append({"what": "resource ledger [%s]: %s" % (name, why), "replay": rp, "key": "ledger:" + (why or "")[:60]})
        else:
            validated += got
            states += tr.distinct
            transitions += tr.generated
        # the same runs against the per-message packet protocol (ProtoTrace.tla): a pair created for the message, both of its
        # ends closed on every path - including sends that fail on their first fragment or later
        import protocheck
        pcompact = os.path.join(wd, name + ".proto.ndjson")
        pevs, overflow = protocheck.convert(raw, pcompact, reset_events=("quiesce",))
        pnote = "skipped"
        if pevs and not overflow:
            pr, preject = protocheck.validate(wd, name, pcompact)
            require_ok(pr, "ProtoTrace " + name)
            if pr.violation or preject:
                rp = write_replay("C11", name + "-proto", {"property": "C11", "kind": "proto", "violation": pr.violation,
                                                           "reject": preject})
                violations.append({"what": "packet protocol [%s]: recorded system calls of a send/receive leave the protocol of "
                                           "Transport.tla (socket pair of a message not closed on some path, follow-up elsewhere): %s %s" % (
                                               name, pr.violation or "", (preject or "")[:300]), "replay": rp, "key": "proto"})
                pnote = "REJECTED"
            else:
                states += pr.distinct
                transitions += pr.generated
                pnote = "%d events accepted" % len(pevs)
        if evs and len(samples) < 3:
            samples.append({"plan": name, "events": len(evs), "head": evs[:8], "proto": pnote})
        os.remove(raw)
        log("  %s: %d behaviours with ledger (%d events), %d bad, ledger %s (%.1fs)" % (
            name, got, len(evs), nbad, "clean" if not tr.violation else why, time.time() - t0))
    # regions of length 0 (never mapped), 1, and around page boundaries at the platform and the ipc level: created, cloned,
    # sent, received, dropped - ledger and /proc empty after every case
    import prop_c18
    rs = prop_c18.region_stage("C11", wd)
    violations += rs["violations"]
    distinct |= rs["distinct"]
    evaluations += rs["evaluations"]
    validated += rs["validated"]
    states += rs["states"]
    transitions += rs["transitions"]
    if tier != "quick":
        # the repository's own 82 tests as trace sources: runs the authors thought were fine, every step through the ledger
        import subprocess
        from vlib import OUT, REPO
        rt = os.path.join(OUT, "repo-tests")
        os.makedirs(rt, exist_ok=True)
        raw = os.path.join(rt, "trace.ndjson")
        for f in (raw, raw + ".seq"):
            if os.path.exists(f):
                os.remove(f)
        env = dict(os.environ, RUSTFLAGS="--cfg ipc_channel_verif", CARGO_TARGET_DIR=os.path.join(rt, "target"),
                   IPC_VERIF_TRACE=raw, IPC_VERIF_SEQ=raw + ".seq", CARGO_NET_OFFLINE="true")
        p = subprocess.run(["cargo", "nextest", "run", "--workspace", "--no-fail-fast", "--test-threads", "4", "--offline"],
                           cwd=REPO, env=env, stdout=subprocess.PIPE, stderr=subprocess.STDOUT, text=True)
        if os.path.exists(raw):
            compact = os.path.join(wd, "repo-tests.res.ndjson")
            evs = rescheck.convert([raw], compact, fork_inheritance=True)
            tr, why = rescheck.validate(wd, "repo-tests", compact)
            require_ok(tr, "ResourcesTrace repo-tests")
            if tr.violation:
                violations.append({"what": "resource ledger on the repository's own test suite: %s" % why,
                                   "replay": write_replay("C11", "repo-tests-ledger", {"property": "C11", "why": why}),
                                   "key": "ledger-repo-tests:" + (why or "")[:60]})
            else:
                validated += 82
                states += tr.distinct
                transitions += tr.generated
            log("  repository test suite: %d ledger events, ledger %s" % (len(evs), "clean" if not tr.violation else why))
            os.remove(raw)
    cov = {"states": states, "transitions": transitions, "traces_validated_against_impl": validated,
           "evaluations": evaluations, "distinct_nontrivial": len(distinct),
           "rule": "behaviours of Channels.tla (create, clone, send small/multi-packet with attachments, receive, transfer, "
                   "drop in any order, sends to closed receivers, agent process exit) executed with the ledger hooks on; "
                   "quiescence after every behaviour; an unrelated child is spawned in the middle of every 7th behaviour; "
                   "distinct by operation/result sequence",
           "samples": samples}
    return {"level": "model_checking", "coverage": cov, "violations": violations,
            "assumptions": ["the ledger sees what the hooks in src/verif.rs::sys report; /proc/self/fd and /proc/self/maps are "
                            "compared at every quiescent point so that an unhooked creation shows up as a discrepancy",
                            "epoll descriptors belong to mio and are covered by the /proc comparison only",
                            "connect to non-existent names, one-shot servers and failing sends are exercised through the "
                            "C08 and C14/C16 drivers; receiver sets and routers through C06/C07/C17"]}


def replay(rp):
    if rp.get("kind") == "chan":
        return chancheck.replay_one(rp)
    print(rp.get("why"))
    return 0
