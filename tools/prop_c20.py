"""C20 - a receiver turned into an async stream yields the same messages, then ends."""
import json
import os
import random
import time

from transcheck import tla_seq
from vlib import (SPEC, build_harness, case_hash, log, run_harness, run_tlc, require_ok, seed, workdir,
                  write_replay)

MAXS = 33


def model(wd, name, nmsgs, wake_first=False):
    mod = "A_" + name
    with open(os.path.join(wd, mod + ".tla"), "w") as f:
        f.write("---- MODULE %s ----\nEXTENDS AsyncRouter\nMCN == %s\n====\n" % (mod, tla_seq(nmsgs)))
    cfg = os.path.join(wd, mod + ".cfg")
    with open(cfg, "w") as f:
        f.write("SPECIFICATION FairSpec\nCONSTANTS\n  Streams = {%s}\n  NMsgs <- MCN\n  DrainOnlyOnWake = FALSE\n"
                "  WakeFirst = %s\nINVARIANTS InOrderOnce EndAfterLast WakesPoller\nPROPERTIES Completes\n" % (
                    ", ".join(str(i + 1) for i in range(len(nmsgs))), "TRUE" if wake_first else "FALSE"))
    return run_tlc(os.path.join(wd, mod + ".tla"), cfg, cwd=wd, workers=8, timeout=3000)


KEEP = {"h.scenario", "h.send", "h.sent", "h.senderdrop", "h.senderdropped", "h.item", "h.end", "h.abandon", "h.pending", "h.woken",
        "async.msg", "async.closed", "async.install", "h.scenario.end"}


def convert(raw, outp):
    evs = []
    with open(raw) as f:
        for line in f:
            try:
                evs.append(json.loads(line))
            except ValueError:
                pass
    evs.sort(key=lambda e: e["g"])
    out = []
    for e in evs:
        if e["ev"] in KEEP:
            out.append({"ev": e["ev"], "s": e.get("s", 0), "x": e.get("x", 0), "id": e.get("id", 0),
                        "known": e.get("known", 1)})
    with open(outp, "w") as f:
        for o in out:
            f.write(json.dumps(o) + "\n")
    return out


def run(tier):
    wd = workdir("c20")
    build_harness("async")
    rnd = random.Random(seed())
    violations, distinct, samples = [], set(), []
    states = transitions = 0
    for name, nm in ([("s2", [2, 1])] if tier == "quick" else [("s2", [2, 1]), ("s3", [2, 1, 0]), ("s2b", [2, 2])]):
        r = model(wd, name, nm)
        require_ok(r, "AsyncRouter " + name)
        if r.violation:
            rp = write_replay("C20", name + "-model", {"property": "C20", "kind": "model", "invariant": r.violation,
                                                       "trace": r.trace[:6000]})
            violations.append({"what": "AsyncRouter.tla: %s violated" % r.violation, "replay": rp, "key": "model"})
        else:
            states += r.distinct
            transitions += r.generated
            log("  model %s: %d distinct states (%.1fs)" % (name, r.distinct, r.wall))
    nsc = 300 if tier == "quick" else 3000
    scs = []
    for i in range(nsc):
        n = rnd.randrange(1, 7)
        msgs = [rnd.choice([0, 1, 2, 3, 5, 8, 8, 40, 50, 150]) for _ in range(n)]
        scs.append({"id": i, "seed": rnd.randrange(1 << 30), "msgs": msgs,
                    "pre": [rnd.choice([0, m, rnd.randrange(0, m + 1)]) for m in msgs],
                    "consumer": [rnd.choice(["block_on", "manual", "manual", "pool"]) for _ in range(n)]})
        if i % 5 == 2 and n >= 2:
            # one consumer walks away from its stream (after at most one item) while the sender goes on and later
            # closes: the other streams must not notice
            k = rnd.randrange(n)
            scs[-1]["consumer"][k] = "abandon"
            scs[-1]["msgs"][k] = max(3, scs[-1]["msgs"][k] % 40)
            scs[-1]["pre"][k] = rnd.choice([0, 1])
        if i % 4 == 1:
            # widen the windows: between queueing a route and waking the routing thread; inside the routing thread
            sites = ["async.to_stream.queued", "async.msg", "async.install", "async.closed"]
            scs[-1]["stalls"] = {rnd.choice(sites): rnd.choice([200, 1500, 5000]) for _ in range(rnd.randrange(1, 3))}
    # bursts: many empty channels converted at the same instant from as many threads; afterwards traffic only on
    # one of them while all other senders stay idle for a while (a route stranded in the queue gets no help)
    for i in range(nsc, nsc + (12 if tier == "quick" else 120)):
        n = rnd.choice([8, 16, 24, 33])
        target = rnd.randrange(n)
        scs.append({"id": i, "seed": rnd.randrange(1 << 30), "msgs": [5 if k == target else rnd.choice([0, 1]) for k in range(n)],
                    "pre": [0] * n, "burst": True, "delay": [0 if k == target else 6000 for k in range(n)],
                    "consumer": [rnd.choice(["block_on", "manual"]) for _ in range(n)]})
    # lone conversions on one CPU with the converting thread in the idle scheduling class: whatever the conversion does
    # AFTER it has woken the routing thread happens only once that thread has finished its pass and sleeps again
    for i in range(len(scs), len(scs) + (8 if tier == "quick" else 60)):
        n = rnd.choice([1, 1, 2])
        m = [rnd.choice([1, 2, 5]) for _ in range(n)]
        scs.append({"id": i, "seed": rnd.randrange(1 << 30), "msgs": m, "pre": list(m), "onecpu": True,
                    "consumer": ["manual"] * n})
    nsc = len(scs)
    validated = 0
    B = 100 if tier == "quick" else 250
    # a small first chunk: a change that makes most scenarios hang (15 s each) is reported after minutes, not hours
    starts = [0] + list(range(20, nsc, B))
    for bi, b in enumerate(starts):
        if len(violations) >= 5:
            log("  %d violations so far: remaining %d scenarios skipped" % (len(violations), nsc - b))
            break
        chunk = scs[b:(starts[bi + 1] if bi + 1 < len(starts) else nsc)]
        raw = os.path.join(wd, "async-%d.ndjson" % b)
        if os.path.exists(raw):
            os.remove(raw)
        p = run_harness("async", ["async"], stdin="\n".join(json.dumps(s) for s in chunk) + "\n",
                        env={"IPC_VERIF_TRACE": raw, "RUST_BACKTRACE": "0"}, timeout=2400)
        outs = {}
        for line in p.stdout.splitlines():
            if line.startswith("{"):
                o = json.loads(line)
                outs[o["id"]] = o
        for sc in chunk:
            distinct.add(case_hash([sc["msgs"], sc["pre"], sc["consumer"]]))
            o = outs.get(sc["id"])
            why = None
            if o is None:
                why = "harness died (rc=%s): %s" % (p.returncode, p.stderr[-300:])
            elif o["hang"]:
                why = "a stream consumer or sender did not finish within 15 s (lost message or lost wake-up)"
            else:
                for st in o["streams"]:
                    want = list(range(1, sc["msgs"][st["s"] - 1] + 1))
                    if st["consumer"] == "abandon":
                        if st["got"] not in ([], [1]):
                            why = "abandoned stream %d yielded %s" % (st["s"], st["got"])
                        continue
                    if st["stuck"]:
                        why = "stream %d: poll returned Pending and the task was never woken (8 s)" % st["s"]
                    elif sc.get("burst") and sc["delay"][st["s"] - 1] == 0 and st.get("elapsed_ms", 0) > 4000:
                        why = ("stream %d: its %d messages were sent and its sender dropped while every other channel was "
                               "idle, yet it took %d ms to be consumed (its route was stranded until unrelated traffic)" % (
                                   st["s"], len(want), st["elapsed_ms"]))
                    elif st["got"] != want or not st["ended"]:
                        why = "stream %d (%s): yielded %s ended=%s, sent %s" % (st["s"], st["consumer"], st["got"],
                                                                                st["ended"], want)
            if why:
                rp = write_replay("C20", "sc-%d" % sc["id"], {"property": "C20", "kind": "async", "scenario": sc,
                                                              "observed": o, "why": why})
                violations.append({"what": "async scenario: " + why, "replay": rp, "key": "async:" + why[:50]})
                if o is None:
                    break
        if "PANIC-RECORDED" in p.stderr:
            violations.append({"what": "a thread panicked in an async scenario: %s" % (
                [x for x in p.stderr.splitlines() if "PANIC-RECORDED" in x][0][:300]),
                "replay": write_replay("C20", "panic-%d" % b, {"property": "C20", "stderr": p.stderr[-3000:]}),
                "key": "async:panic"})
        compact = os.path.join(wd, "async-%d.compact.ndjson" % b)
        evs = convert(raw, compact)
        cfg = os.path.join(wd, "async-%d.cfg" % b)
        with open(cfg, "w") as f:
            f.write("SPECIFICATION TraceSpec\nCONSTANTS\n  Streams = {%s}\n  NMsgs = 0\n  DrainOnlyOnWake = FALSE\n"
                    "  WakeFirst = FALSE\nINVARIANTS InOrderOnce NothingLost\nPOSTCONDITION TraceAccepted\n"
                    "CHECK_DEADLOCK FALSE\n" % ", ".join(map(str, range(1, MAXS + 1))))
        tr = run_tlc(os.path.join(SPEC, "AsyncTrace.tla"), cfg, workers=1, env={"TRACE": compact},
                     jvm=["-Xmx4g", "-Xss1g", "-Dtlc2.tool.queue.IStateQueue=StateDeque"], timeout=1800)
        require_ok(tr, "AsyncTrace")
        reject = None
        lines = tr.raw.splitlines()
        for i, line in enumerate(lines):
            if "@@REJECT" in line:
                reject = " ".join(x.strip() for x in lines[i:i + 10])
        if tr.violation or reject:
            rp = write_replay("C20", "trace-%d" % b, {"property": "C20", "kind": "async-trace", "violation": tr.violation,
                                                      "reject": reject, "scenarios": chunk})
            violations.append({"what": "recorded async execution is not a behaviour of AsyncRouter.tla: %s %s" % (
                tr.violation or "", (reject or "")[:300]), "replay": rp, "key": "async-trace"})
        else:
            validated += len(chunk)
            states += tr.distinct
            transitions += tr.generated
        if len(samples) < 3:
            samples.append({"scenario": chunk[0], "events_head": evs[:20]})
        os.remove(raw)
    log("  %d scenarios, %d validated against AsyncTrace.tla, %d violations" % (nsc, validated, len(violations)))
    cov = {"states": states, "transitions": transitions, "traces_validated_against_impl": validated,
           "evaluations": nsc, "distinct_nontrivial": len(distinct),
           "rule": "seeded scenarios on the async build: 1..6 streams converted from as many threads, 0..8 messages per "
                   "channel split between before and after the conversion, senders dropping at random points, consumers "
                   "block_on / LocalPool / manual polling with a counting waker; distinct by (messages, split, consumers)",
           "samples": samples}
    return {"level": "model_checking", "coverage": cov, "violations": violations,
            "assumptions": ["futures-channel's unbounded queue and waker semantics are a dependency",
                            "free-running schedules with seeded jitter; the routing thread is a process-wide singleton"]}


def replay(rp):
    print(rp.get("why") or rp.get("reject"))
    return 0
