"""ReceiverSet.tla based check (C06)."""
import json
import os
import random
import time

from transcheck import tla_seq
from vlib import (SPEC, ToolError, build_harness, case_hash, log, run_harness, run_tlc, require_ok,
                  seed, workdir, write_replay)

INV = "EachOnceInOrder ClosedOnlyWhenDisconnected UniqueIds ETInv"


def tla_prog(prog):
    return "<<" + ", ".join('[op |-> "%s", m |-> %d]' % (o["op"], o.get("m", 0)) for o in prog) + ">>"


def model(wd, name, msgs, prog, cap=2, drain_one=False, level_blind=False, export=False, simulate=None, depth=None,
          tlcseed=None, liveness=True, workers=8, timeout=3000, crashers=(), stop_after_torn=False, senders_first=False,
          late=()):
    mod = "R_" + name.replace("-", "_")
    with open(os.path.join(wd, mod + ".tla"), "w") as f:
        f.write("---- MODULE %s ----\nEXTENDS MCReceiverSet\nMCMsgs == %s\nMCProg == %s\n====\n" % (
            mod, tla_seq(msgs), tla_prog(prog)))
    cfg = os.path.join(wd, mod + ".cfg")
    with open(cfg, "w") as f:
        f.write("SPECIFICATION %s\nCONSTANTS\n  Members = {%s}\n  MMsgs <- MCMsgs\n  Prog <- MCProg\n  Cap = %d\n"
                "  DrainOne = %s\n  LevelBlindAdd = %s\n  Crashers = {%s}\n  StopAfterTorn = %s\n  SendersFirst = %s\n  LateMembers = {%s}\n"
                "INVARIANTS %s %s\n%s%s\n" % (
                    "FairSpec" if (liveness and not simulate) else "Spec",
                    ", ".join(str(i + 1) for i in range(len(msgs))), cap,
                    "TRUE" if drain_one else "FALSE", "TRUE" if level_blind else "FALSE",
                    ", ".join(map(str, crashers)), "TRUE" if stop_after_torn else "FALSE",
                    "TRUE" if senders_first else "FALSE", ", ".join(map(str, late)), INV,
                    "Export" if export else "",
                    "PROPERTIES Completes\n" if (liveness and not simulate) else "",
                    "" if (export or simulate) else "VIEW View"))
    return run_tlc(os.path.join(wd, mod + ".tla"), cfg, cwd=wd, workers=workers, simulate=simulate, depth=depth,
                   tlcseed=tlcseed, timeout=timeout)


def replay(cases, timeout=3000):
    for i, c in enumerate(cases):
        c["id"] = i
    verdicts = [None] * len(cases)
    pos = 0
    while pos < len(cases):
        chunk = cases[pos:]
        stdin = "\n".join(json.dumps(c) for c in chunk) + "\n"
        p = run_harness("os", ["setsched"], stdin=stdin, timeout=timeout, env={"IPC_VERIF_SENDBUF": 4096,
                                                                            "RUST_BACKTRACE": "0"})
        last_begin = None
        for line in p.stdout.splitlines():
            if not line.startswith("{"):
                continue
            o = json.loads(line)
            if "begin" in o:
                last_begin = o["begin"]
            elif "id" in o:
                verdicts[o["id"]] = o
        if all(verdicts[c["id"]] is not None for c in chunk):
            break
        if last_begin is None:
            raise ToolError("harness setsched died before starting: rc=%s\n%s" % (p.returncode, p.stderr[-3000:]))
        verdicts[last_begin] = {"id": last_begin, "died": True, "why": "process died: rc=%s %s" % (
            p.returncode, p.stderr[-800:])}
        pos = last_begin + 1
    return verdicts


def judge(case, v):
    if v is None or v.get("died"):
        return "harness process died: %s" % (v or {}).get("why"), False
    if v.get("hang"):
        return ("select went on blocking although events were pending (selecting thread did not finish within 10 s): %s"
                % v.get("why")), v.get("matched")
    obs = v["observed"]
    ids = {e["id"]: e["m"] for e in obs["ids"]}
    if len(set(ids)) != len(ids):
        return "two members share an id: %s" % obs["ids"], v.get("matched")
    per = {}
    for e in obs["events"]:
        if e["t"] in ("select-error", "undecodable"):
            return "select/decoding failed: %s" % e, v.get("matched")
        if e["id"] not in ids:
            return "event for an id that add never returned: %s" % e, v.get("matched")
        m = ids[e["id"]]
        per.setdefault(m, []).append(e)
        if e["t"] == "msg" and (e["m"] != m or not e["intact"]):
            return "message of member %s reported under the id of member %s (or altered): %s" % (e["m"], m, e), v.get("matched")
    killed = {s["a"] for s in case["sched"] if s["k"] == "kill"}
    for m, nmsgs in enumerate([len(x) for x in case["msgs"]], 1):
        if m not in ids.values():
            continue
        evs = per.get(m, [])
        want = [("msg", x) for x in range(1, nmsgs + 1)] + [("closed", None)]
        got = [(e["t"], e.get("x")) for e in evs]
        if m in killed:
            # the killed sender's completed messages, in order, then exactly one closed event
            k = len(got) - 1
            if not got or got[-1] != ("closed", None) or got[:-1] != want[:k] or k > nmsgs:
                return "member %d (sender killed): events %s" % (m, got), v.get("matched")
        elif got != want:
            return "member %d: events %s, expected %s" % (m, got, want), v.get("matched")
    if v.get("matched"):
        mlog = [(e["t"], e["id"] - 1, e["x"] if e["t"] == "msg" else None) for e in case["log"]]
        glog = [(e["t"], e["id"], e.get("x")) for e in obs["events"]]
        if mlog != glog:
            # same per-member content, other cross-member order: the ready list was not in arming order.
            # Allowed by the property; reported as unmatched.
            return None, False
    return None, v.get("matched")


def campaign(pid, plans):
    wd = workdir(pid.lower())
    build_harness("os")
    violations, distinct, samples = [], set(), []
    states = transitions = replayed = unmatched = 0
    rnd = random.Random(seed())
    for pl in plans:
        t0 = time.time()
        kw = dict(msgs=pl["msgs"], prog=pl["prog"], crashers=pl.get("crashers", ()),
                  senders_first=pl.get("senders_first", False), late=pl.get("late", ()))
        for cap in pl.get("caps", (1, 2)):
            r = model(wd, "%s-mc-cap%d" % (pl["name"], cap), cap=cap, liveness=pl.get("liveness", True), **kw)
            require_ok(r, "ReceiverSet " + pl["name"])
            if r.violation:
                rp = write_replay(pid, pl["name"] + "-model", {"property": pid, "kind": "model", "invariant": r.violation,
                                                               "trace": r.trace[:6000]})
                violations.append({"what": "ReceiverSet.tla: %s violated (%s, Cap=%d)" % (r.violation, pl["name"], cap),
                                   "replay": rp, "key": "model"})
                continue
            states += r.distinct
            transitions += r.generated
        # schedules with the capacity the code really has (10 >= number of members)
        g = model(wd, pl["name"] + "-gen", cap=10, export=True, simulate=pl.get("simulate", 40), depth=pl.get("depth", 300),
                  tlcseed=seed() + len(samples), liveness=False, **kw)
        require_ok(g, "ReceiverSet gen " + pl["name"])
        sch, seen = [], set()
        for line in g.lines:
            if line.startswith("@@"):
                h = case_hash(line)
                if h not in seen:
                    seen.add(h)
                    sch.append(json.loads(line[2:]))
        if pl.get("limit") and len(sch) > pl["limit"]:
            sch = rnd.sample(sch, pl["limit"])
        cases = [{"msgs": pl["msgs"], "prog": pl["prog"], "sched": s["sched"], "log": s["log"], "selects": s["selects"],
                  "procs": list(pl.get("crashers", ())), "attach": bool(pl.get("attach")),
                  "late": list(pl.get("late", ()))} for s in sch]
        # in chunks: every schedule on which the selecting thread hangs costs 10 s; a change that breaks most of them is
        # reported after the first few
        verdicts = []
        for off in range(0, len(cases), 12):
            part = replay(cases[off:off + 12])
            verdicts += part
            if sum(1 for c, v in zip(cases[off:off + 12], part) if judge(c, v)[0]) >= 5:
                cases = cases[:off + 12]
                break
        for i, c in enumerate(cases):
            c["id"] = i
        nbad = 0
        for c, v in zip(cases, verdicts):
            replayed += 1
            viol, matched = judge(c, v)
            if not matched:
                unmatched += 1
            distinct.add(case_hash([(s["a"], s["k"]) for s in c["sched"]]))
            if viol:
                nbad += 1
                if nbad <= 5:
                    rp = write_replay(pid, "%s-%d" % (pl["name"], c["id"]), {"property": pid, "kind": "setsched", "case": c,
                                                                            "verdict": v, "why": viol})
                    violations.append({"what": "receiver set [%s]: %s; schedule %s" % (
                        pl["name"], viol, " ".join("%s:%s" % (s["a"], s["k"]) for s in c["sched"])[:400]),
                        "replay": rp, "key": "setsched:" + viol[:60]})
        if cases:
            samples.append({"plan": pl["name"], "schedule": " ".join("%s:%s" % (s["a"], s["k"]) for s in cases[0]["sched"])})
        log("  %s: TLC exhaustive for Cap 1,2 (%d states so far); %d schedules replayed, %d unmatched so far, %d bad (%.1fs)" % (
            pl["name"], states, len(cases), unmatched, nbad, time.time() - t0))
    cov = {"states": states, "transitions": transitions, "traces_validated_against_impl": replayed,
           "unmatched_schedules": unmatched, "evaluations": replayed, "distinct_nontrivial": len(distinct),
           "rule": "schedules = TLC random walks through ReceiverSet.tla (members x message shapes x add positions x EINTR), "
                   "executed with sender threads and the selecting thread held at their hooks; distinct by the sequence of "
                   "(actor, system call)",
           "samples": samples[:5]}
    return {"level": "model_checking", "coverage": cov, "violations": violations}


def replay_one(rp):
    if rp.get("kind") != "setsched":
        print(json.dumps(rp, indent=1)[:4000])
        return 0
    build_harness("os")
    v = replay([rp["case"]])[0]
    viol, _ = judge(rp["case"], v)
    print(json.dumps(v, indent=1))
    if viol:
        print("VIOLATION property=%s replay=(this file)" % rp["property"])
        return 1
    print("schedule conforms now")
    return 0
