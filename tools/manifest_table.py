# Table of claimed checks (executed by gen_manifest.py).
check("C13", "fault_enumeration",
      "Frag.tla (the send/receive fragment loops, one action per system call) is model-checked by TLC with the "
      "constants the running code reports, for every ENOBUFS pattern over the first 10 transmission attempts x "
      "the five message shapes x with/without attachments; every terminal behaviour is replayed through the real "
      "platform layer with ENOBUFS injected at exactly those attempts, and the recorded system-call trace of the "
      "replay is validated against FragTrace.tla (kernel premises K1/K2/K4 and all Frag invariants on every step).",
      "ENOBUFS is injected at the hook in front of sendmsg/send, not provoked in the kernel; two send-buffer sizes "
      "(4096 via the override hook, and the system default); bounds: 10 attempts, shapes as listed in the property.",
      "TLC model checking of Frag.tla + replay of every TLC behaviour with fault injection + TLC trace validation",
      "DESIGN.md 3.2, 6 (C13)")
check("C01", "model_checking",
      "Frag.tla is model-checked by TLC with the fragment arithmetic the running code reports, for every length "
      "within +/-16 of the k-th packet boundary (k=1..4) plus 0,1,7,8,9, at send-buffer sizes 4096, 8192, (20000, "
      "65536) and the system default; every behaviour is replayed through the platform layer and its system-call "
      "trace validated against FragTrace.tla (no packet larger than the buffer offered for it, contiguous extents, "
      "receive buffer never beyond capacity). The public API is exercised on the os, memfd and in-process builds "
      "with a seeded family of serde values (floats by bit pattern) and byte payloads at the same boundaries "
      "(thorough: random lengths up to 64 MiB).",
      "Lengths other than the boundary sets are sampled, not enumerated; bincode is trusted for value<->bytes; "
      "send-buffer sizes below the default come from the override hook; macOS/Windows back-ends do not build here.",
      "TLC model checking of Frag.tla + replay of TLC behaviours + TLC trace validation + API round trips on three builds",
      "DESIGN.md 3.2, 6 (C01)")
check("C15", "model_checking",
      "Frag.tla's OverfullRefused/NoMangle/AcceptedArrives are model-checked with the control-buffer capacity the "
      "code reports (quick: attachment counts 0,1,62..66,127,128,252..254,300; thorough: every count 0..300) x "
      "sender/receiver/region mixtures x data parts empty/small/exactly one packet/one byte over/multi-packet; every "
      "behaviour is replayed: accepted messages must arrive with every attachment working (identity probes), "
      "refused ones must leave the channel usable, nothing may hang or panic.",
      "Attachments are exercised at the platform layer (OsIpcSender::send with channel and region lists); premises "
      "K2/K3 about the kernel's treatment of excess descriptors.",
      "TLC model checking of Frag.tla + replay of TLC behaviours + TLC trace validation",
      "DESIGN.md 3.2, 6 (C15)")
