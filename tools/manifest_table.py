# Table of claimed checks (executed by gen_manifest.py).
check("C13", "fault_enumeration",
      "Frag.tla (the send/receive fragment loops, one action per system call) is model-checked by TLC with the "
      "constants the running code reports, for every ENOBUFS pattern over the first 10 transmission attempts x "
      "the five message shapes x with/without attachments; every terminal behaviour is replayed through the real "
      "platform layer with ENOBUFS injected at exactly those attempts, and the recorded system-call trace of the "
      "replay is validated against FragTrace.tla (kernel premises K1/K2/K4 and all Frag invariants on every step).",
      "ENOBUFS is injected at the hook in front of sendmsg/send, not provoked in the kernel; two send-buffer sizes "
      "(4096 via the override hook, and the system default); bounds: 10 attempts, shapes as listed in the property.",
      "TLC model checking of Frag.tla + replay of every TLC behaviour with fault injection + TLC trace validation",
      "DESIGN.md 3.2, 6 (C13)")
