# Table of claimed checks (executed by gen_manifest.py).
check("C13", "fault_enumeration",
      "Frag.tla (the send/receive fragment loops, one action per system call) is model-checked by TLC with the "
      "constants the running code reports, for every ENOBUFS pattern over the first 10 transmission attempts x "
      "the five message shapes x with/without attachments; every terminal behaviour is replayed through the real "
      "platform layer with ENOBUFS injected at exactly those attempts, and the recorded system-call trace of the "
      "replay is validated against FragTrace.tla (kernel premises K1/K2/K4 and all Frag invariants on every step).",
      "ENOBUFS is injected at the hook in front of sendmsg/send, not provoked in the kernel; two send-buffer sizes "
      "(4096 via the override hook, and the system default); bounds: 10 attempts, shapes as listed in the property.",
      "TLC model checking of Frag.tla (ENOBUFS patterns + one non-retried fault injected as EINTR) + replay of every TLC behaviour with fault injection + TLC trace validation",
      "DESIGN.md 3.2, 6 (C13)")
check("C01", "model_checking",
      "Frag.tla is model-checked by TLC with the fragment arithmetic the running code reports, for every length "
      "within +/-16 of the k-th packet boundary (k=1..4) plus 0,1,7,8,9, at send-buffer sizes 4096, 8192, (20000, "
      "65536) and the system default; every behaviour is replayed through the platform layer and its system-call "
      "trace validated against FragTrace.tla (no packet larger than the buffer offered for it, contiguous extents, "
      "receive buffer never beyond capacity). The public API is exercised on the os, memfd and in-process builds "
      "with a seeded family of serde values (floats by bit pattern) and byte payloads at the same boundaries "
      "(thorough: random lengths up to 64 MiB). spec/apalache/FragInd.tla restates the two loops over integers with an "
      "inductive invariant that Apalache discharges for every message length and send-buffer size >= 1000.",
      "Lengths other than the boundary sets are sampled in the replay (the inductive invariant covers them in the model only); bincode is trusted for value<->bytes; "
      "send-buffer sizes below the default come from the override hook; macOS/Windows back-ends do not build here.",
      "TLC model checking of Frag.tla + Apalache inductive invariant + replay of TLC behaviours + TLC trace validation + API round trips on three builds",
      "DESIGN.md 3.2, 6 (C01)")
check("C15", "model_checking",
      "Frag.tla's OverfullRefused/NoMangle/AcceptedArrives are model-checked with the control-buffer capacity the "
      "code reports (quick: attachment counts 0,1,62..66,127,128,252..254,300; thorough: every count 0..300) x "
      "sender/receiver/region mixtures x data parts empty/small/exactly one packet/one byte over/multi-packet; every "
      "behaviour is replayed: accepted messages must arrive with every attachment working (identity probes), "
      "refused ones must leave the channel usable, nothing may hang or panic.",
      "Attachments are exercised at the platform layer (OsIpcSender::send with channel and region lists); premises "
      "K2/K3 about the kernel's treatment of excess descriptors.",
      "TLC model checking of Frag.tla + replay of TLC behaviours + TLC trace validation",
      "DESIGN.md 3.2, 6 (C15)")
check("C03", "model_checking",
      "Channels.tla (the ideal API model: handles owned by agents, messages carrying endpoints, eager death of queues "
      "whose receiver is gone) defines when a receive may say 'disconnected' or 'empty'. TLC enumerates every behaviour "
      "of <=3 (thorough 4) operations over clone/move/embed/extract/drop/drop-carrier/agent-exit for 1 and 2 agents and "
      "simulates longer ones (up to 60 operations, 6 channels); each behaviour, ending in a probe/drain epilogue, is "
      "replayed through the real crate with agent 1 as a thread or a spawned process, comparing every result. For every "
      "operation that the model says disconnects an idle receiver, a receive (blocking or 15 s timed) is parked on that "
      "receiver first and must wake up with 'disconnected'. UnixHandles.tla (descriptor view: clones sharing a descriptor, "
      "references in flight, cascading destruction of queues, process exit) is checked by TLC to agree with the handle "
      "view in every reachable state.",
      "Acyclic channel families; bounded histories; the racing half is forced in one order (receiver already blocked); "
      "macOS/Windows unbound.",
      "TLC exhaustive + simulation of Channels.tla, behaviours replayed through the API with per-step comparison",
      "DESIGN.md 3.5, 6 (C03)")
check("C04", "model_checking",
      "Same model and binding as C03, with behaviours selected for messages that embed senders (typed, opaque, bytes), "
      "receivers (typed, bytes) and regions at positions 1..4 of small and multi-packet messages, transfer chains across "
      "threads and processes with messages pending before/between/after hops. Identity is checked by tagged traffic: "
      "the model says which tag must come out of which receiver in which order, and the epilogue sends one probe through "
      "every remaining sender handle and drains every receiver. Every second embedded receiver travels through a shared "
      "pointer so that the program keeps the handle it was sent from: after the send that handle must be dead.",
      "At most 4 slots per generated message (counts up to 300 are covered at the platform layer by C15); acyclic families.",
      "TLC exhaustive + simulation of Channels.tla, behaviours replayed through the API with per-step comparison",
      "DESIGN.md 3.5, 6 (C04)")
check("C05", "model_checking",
      "Regions in Channels.tla: created from bytes or from a fill byte with lengths 0, 1, page-1, page, page+1, 2 pages-1, "
      "2 pages, 2 pages+1, cloned, sent 1..4 per message in any order, received by the same or the other agent (thread or "
      "spawned process), read through any handle after any drops; every read must return the creating bytes. Replayed on "
      "the shm_open build, the memfd build and the in-process build.",
      "Premise K12; lengths are a fixed table (plus 100000 and 7 in the thorough tier); contents are a deterministic "
      "pattern per region token.",
      "TLC exhaustive + simulation of Channels.tla, behaviours replayed through the API on three builds",
      "DESIGN.md 3.5, 6 (C05)")
check("C09", "model_checking",
      "Channels.tla: send succeeds iff the receiving end exists (held, or in transit inside a live queue). Behaviours in "
      "which the receiver, its carrier queue or its whole process disappears at every point relative to sends of small and "
      "multi-packet messages with and without attachments are enumerated/simulated by TLC and replayed with SIGPIPE at its "
      "default disposition in every harness process; a send must return exactly the model's ok/err, never kill the process "
      "or block (20 s watchdog). Transport.tla with RecvDrop: the receiving end is dropped at every point inside a stream "
      "of multi-packet sends from threads/processes; gated schedules must give exactly the model's send results "
      "(NoFalseSuccess). UnixHandles.tla: the kernel's EPIPE condition agrees with 'the receiving end exists nowhere'.",
      "Acyclic families; error *codes* are not compared; macOS/Windows unbound.",
      "TLC exhaustive + simulation of Channels.tla replayed through the API + TLC model checking of Transport.tla with gated replay of receiver-drop schedules",
      "DESIGN.md 3.5, 6 (C09)")
check("C14", "model_checking",
      "SideTables.tla models the per-thread attachment tables of ipc.rs as a machine of frames (take tables, visit "
      "slots, nested send, serialisation failure, put back, hand to transport). TLC checks NothingRetained, "
      "OwnAttachments and FailedSendsSilent for every script to nesting depth 1 x 2 slots and simulated scripts to depth "
      "3 x 3 slots (nested sends to live or dead receivers, failures swallowed or propagated). Each script is executed "
      "through IpcSender::send by a harness value type whose Serialize impl performs it; compared: result of every "
      "(nested) send, which message carries which attachment at which position (identity probes), table lengths 0 after "
      "the call, every attached channel disconnects once the program's handles are dropped, and a follow-up message "
      "from the same thread carries only its own attachment. NestedRecv.tla models the receive side with nesting "
      "(to() swaps the message's lists in and the enclosing decode's tables back): SelfContained, NothingRetained; every "
      "value (slots D/S/R/M/receive-inside-Deserialize, depth 1 x 2 exhaustively, depth 3 x 3 simulated) is decoded by a "
      "harness type whose Deserialize impl performs the nested receive, identity of every attachment probed.",
      "Scripts are bounded (depth 3, 3 slots); the mutant config SerVariant=early_return (the code before the fix) "
      "violates NothingRetained in the model and is rejected by the replay.",
      "TLC model checking of SideTables.tla and NestedRecv.tla + replay of every script/value through the API",
      "DESIGN.md 3.6, 6 (C14)")
check("C16", "model_checking",
      "SideTables.tla's decode machine (attachment lists x reference sequences: in range, out of range, repeated, "
      "unused) is enumerated by TLC (NoPanic, OnlyAttached, termination); every case becomes a real message whose byte "
      "stream carries exactly those indices and is decoded on a fresh thread (directly and through a receiver set): "
      "Ok/Err must match the model, endpoints obtained must be the attachments their indices designate, unused "
      "attachments must be released (channels disconnect, descriptor count returns to its baseline). A seeded fuzz part "
      "sends random and mutated encodings (0..4096 bytes, 0..8 attachments) for 12 expected types, and messages that are "
      "received and dropped undecoded.",
      "For arbitrary bytes the outcome Ok or Err is not predicted (bincode decides), only panic/abort/foreign endpoint/"
      "leak are violations; a reference of the wrong kind (sender index naming a receiver) is not distinguished by the "
      "model; run on the OS build (the in-process transport panics on wrong-kind references by design of its enum).",
      "TLC model checking of SideTables.tla + replay of every decode case + seeded mutation fuzzing",
      "DESIGN.md 3.6, 6 (C16)")
check("C02", "model_checking",
      "Transport.tla (one action per system call of send and recv; dedicated socket per fragmented message) is checked "
      "exhaustively by TLC for every interleaving of up to 3 senders x up to 2 messages x up to 3 packets against a "
      "receiver that is eager, polling (try_recv) or timed: Whole, AtMostOnce, RealTimeFIFO (a send that returned before "
      "another began is delivered first), AcceptedDelivered, Terminates. TLC random walks through the same model are "
      "executed on the real crate: sender threads and spawned sender processes and the receiving thread are held at "
      "their system-call hooks and released one call at a time in exactly the model's order, so each interleaving is "
      "forced rather than hoped for; receive results and delivery order must equal the model's. Fifo.tla states the "
      "property at call level (send = interval with a linearisation point) and TLC shows its trace rules necessary; "
      "free-running scenarios with 1..8 senders (threads, clones, spawned processes; up to 24 single-/multi-packet "
      "messages each) and six receiver behaviours (eager, delayed, try_recv, try_recv_timeout, mixed, receiver set) are "
      "recorded and every delivery/disconnection validated by TLC against FifoTrace.tla; the system calls of the same runs "
      "are validated against ProtoTrace.tla (dedicated socket pair per fragmented message, follow-ups only on it, the "
      "sender's copy of its receiving end closed first, the receiver reading the rest only from the descriptor that came "
      "with the first packet).",
      "Schedules executed on real code are a sample (quick ~700, thorough several thousand) of the exhaustively checked "
      "model; send buffer 4096 via the override hook; a schedule the code cannot follow (different system-call sequence) is "
      "counted as unmatched and judged only by the property-level oracle.",
      "TLC exhaustive model checking of Transport.tla + gated replay of TLC-generated interleavings on real threads/processes + TLC trace validation of free-running runs (FifoTrace.tla)",
      "DESIGN.md 3.3, 4.4, 6 (C02)")
check("C10", "model_checking",
      "Transport.tla with the receiver's O_NONBLOCK flag, poll and the sleeping states of recvmsg/poll: BlockingRestored, "
      "BlockingNeverEmpty, no missed message, for plans mixing recv/try_recv/try_recv_timeout against senders that send "
      "1..3 packets or just drop, before/during/after each call (exhaustive in TLC). Schedules are replayed with gating; a "
      "timed receive that the model ends by readiness gets 8 s and must return early (<6 s), one that the model lets expire gets "
      "0..20 ms and must not say 'empty' before floor(d) ms; a try_recv observed asleep in the kernel is a violation. "
      "Second stage: every Channels.tla behaviour (<=3-4 operations, plus random walks) that contains a try_recv or "
      "try_recv_timeout is replayed sequentially and each result compared - this stage does not depend on which system "
      "calls the transport makes. A timed receive asleep in recvmsg on the channel's socket (a wait without timeout) is a "
      "violation; waits that expire get 3/0.3/20/0/1/2 ms (and 1250/2100 ms in one plan) and are measured from the release "
      "of the poll gate. Signal stage: timed receives on an idle connected channel while signals (handler without "
      "SA_RESTART) hit the waiting thread: no 'empty' before the requested time, the channel works afterwards.",
      "Timing uses the receiving thread's own monotonic clock only; durations up to 8 s; the mutant RestoreBlocking=FALSE "
      "violates BlockingRestored in the model.",
      "TLC exhaustive model checking of Transport.tla + gated replay with timing floors + replay of Channels.tla behaviours at call level",
      "DESIGN.md 3.3, 6 (C10)")
check("C12", "fault_enumeration",
      "Transport.tla with Kill(s) enabled between any two system calls of a sender process (exhaustive in TLC, shapes up "
      "to 6 packets, with and without a surviving sender, observer blocking or polling): CrashSafe = Whole + "
      "DiscOnlyWhenDone + AcceptedDelivered + Terminates. Schedules containing the kill are replayed: the victim is a "
      "spawned process held at its hooks and SIGKILLed exactly there; the receiver must see every completed message "
      "intact, the interrupted one intact or as a non-disconnect error, 'disconnected' only without survivors, and must "
      "not wait forever. Plans in which the crashing sender's messages carry a clone of its own handle (attachments of a "
      "torn message must be released); errno is poisoned with EINTR before every real receive/send/poll.",
      "Kill points are the hook sites (before each socketpair/sendmsg/send/close of the sending path); observers here are "
      "recv and try_recv (select/router observers: C06/C07).",
      "TLC exhaustive model checking with crash action + gated replay killing a real process at each chosen boundary",
      "DESIGN.md 3.3, 6 (C12)")
check("C06", "model_checking",
      "ReceiverSet.tla (edge-triggered epoll ready list, events capacity, drain-until-EWOULDBLOCK loop, blocking follow-up "
      "reads, registration, end-of-channel handling, EINTR) is checked exhaustively by TLC for up to 4 members x up to 2 "
      "messages (1 or 2 packets) x Cap in {1,2} x members added before/during/after traffic x sender drops anywhere x EINTR "
      "anywhere: EachOnceInOrder, ClosedOnlyWhenDisconnected, UniqueIds, the no-lost-wake-up invariant ETInv and the "
      "liveness Completes. TLC random walks are executed with the sender threads and the selecting thread held at their "
      "system-call hooks (EINTR by a real signal into epoll_wait); per member the events must be exactly its messages in "
      "order then one closed event, ids unique, and select must not stay asleep while the model has an event pending. "
      "Plans: 200 messages queued before the set looks, 11 members ready in one epoll_wait (events capacity 10), members "
      "created after others have left the set (descriptor numbers reused), sender killed mid-message. Burst stage: the "
      "model's 'all sends, then selects' behaviours free-running at sizes that reach the code's capacities (12x40 ... 64x5 "
      "members x queued messages; in-process and memfd builds in the thorough tier).",
      "Premise K10; mutants DrainOne and LevelBlindAdd violate ETInv in the model; cross-member order inside one batch "
      "follows the kernel and only matters for 'matched' accounting; macOS/Windows/in-process sets unbound here.",
      "TLC exhaustive model checking of ReceiverSet.tla + gated replay of TLC-generated interleavings",
      "DESIGN.md 3.4, 6 (C06)")
check("C07", "model_checking",
      "Router.tla (proxy mutex, crossbeam message queue, wake-up channel, router thread taking one message per wake-up, "
      "dispatch) is checked exhaustively by TLC for routes registered from 2 proxy threads while messages are queued or in "
      "flight and senders drop anywhere: RouteOnceInOrder, DroppedOnce, DroppedAfterLast, AllDispatched. Seeded free-running "
      "scenarios (1..6 routes, callback and crossbeam-forwarding, 1..3 registering threads, 0..50 messages per route, some "
      "queued before registration; every fourth with a slow handler, bursts on installed routes and late registrations) are recorded through the router.rs hooks and harness events, and every recorded step is "
      "validated by TLC against RouterTrace.tla (own handler, next message of that route, closure only when disconnected "
      "and drained, exactly one drop per callback); the harness also compares final per-route deliveries.",
      "Interleavings of the real run are those the scheduler (with seeded jitter) produces, not forced ones; 32 routes / 8 "
      "threads of the property text are scaled to 6 / 3 per scenario, many scenarios.",
      "TLC exhaustive model checking of Router.tla + TLC trace validation of recorded executions (RouterTrace.tla)",
      "DESIGN.md 3.7, 6 (C07)")
check("C17", "model_checking",
      "Router.tla with shutdown (idempotent, from 1-2 threads racing add_route) and proxy drop: StoppedWhenReturned, "
      "NoCallAfterReturn, NoPanic, ShutdownReturns are checked exhaustively; the configs BreakInnerOnly=TRUE and "
      "PanicOnWakeClosed=TRUE (the code as found) violate them. Free-running scenarios stopped by shutdown or by dropping "
      "the proxy are validated against RouterTrace.tla: a handler entry after shutdown's return event, a callback still "
      "alive at that event, a route offered after shutdown that is invoked, or a recorded panic reject the trace; the "
      "harness additionally checks that crossbeam receivers are disconnected immediately after shutdown() returns, that "
      "no thread hangs, that 3 s after a proxy drop every callback is gone and every downstream receiver disconnected, and "
      "that a stopped router has given its descriptors back. Scenario families: stalls at hook points inside add_route/"
      "shutdown, callbacks slow to destroy, 11-13 routes ready in one batch, consumers that drop their crossbeam receiver.",
      "Free-running schedules; up to 6 routes and 3 proxy threads per scenario.",
      "TLC exhaustive model checking of Router.tla + TLC trace validation of recorded executions (RouterTrace.tla)",
      "DESIGN.md 3.7, 6 (C17)")
check("C20", "model_checking",
      "AsyncRouter.tla (route queue + wake-up, routing thread forwarding into per-stream unbounded buffers, installation of "
      "queued routes after every select, consumers that park on Pending and are woken) is checked exhaustively by TLC for "
      "2..3 streams with messages before and after conversion and senders dropping anywhere: InOrderOnce, EndAfterLast, "
      "WakesPoller, Completes (the variant WakeFirst=TRUE strands a route and violates Completes). Seeded free-running "
      "scenarios on the async build (1..6 streams from as many threads, consumers on block_on, LocalPool and manual "
      "polling with a counting waker) are recorded and validated by TLC against AsyncTrace.tla: every item is the next one "
      "of its stream and was sent, end-of-stream only after the sender is gone and everything sent was yielded, no message "
      "reaches the routing thread for an id it has no stream for; the harness flags a Pending poll that is never woken.",
      "Free-running schedules; the mapping of routing-thread ids to streams is not recorded, so routing-thread events are "
      "checked only for 'no message dropped for an unknown id'; futures-channel is trusted.",
      "TLC exhaustive model checking of AsyncRouter.tla + TLC trace validation of recorded executions (AsyncTrace.tla)",
      "DESIGN.md 3.7, 6 (C20)")
check("C08", "model_checking",
      "OneShot.tla (names, listening socket and its file-system entries, connect before/after accept, data queued before "
      "accept, client exit, accept consuming the server, server drop) is enumerated by TLC: every order of the operations "
      "for one server to the bound, two servers by simulation, messages small/multi-packet with/without an attached "
      "region. Each behaviour is replayed with the client as a thread and as a spawned process (its exit is a real process "
      "exit); an accept called first is parked until the thread is asleep in accept(2). Compared after every step: results "
      "of connect/send/accept/recv, message order and contents, existence of the socket path and its directory, "
      "distinctness of all names issued, and the process' descriptor count at the end of the behaviour. Further modes: the "
      "behaviours executed in a fork(2)ed child of a process that has used the library before; a process client that sends "
      "60 multi-packet messages before the server accepts; spawned clients report listening sockets they were born with; "
      "behaviours with a pause of 2.3-11 s between connect and the first send while the server sits in accept.",
      "Premise K11; clients are spawned (not forked); 1..3 messages per client in generated behaviours.",
      "TLC exhaustive + simulation of OneShot.tla, behaviours replayed through the API with per-step projection",
      "DESIGN.md 3.8, 6 (C08)")
check("C11", "model_checking",
      "Resources.tla is a ledger monitor (descriptors with close-on-exec flag, shared mappings, control buffers, per "
      "process): CloseOwnedOnce, AllCloexec, UnmapMatches, no double free, empty at quiescence. TLC validates against it "
      "the complete hook trace of thousands of Channels.tla behaviours (create, clone, send small/multi-packet with "
      "attachments, receive, transfer, drop in any order, failing sends, agent processes exiting) executed on the real "
      "crate; after every behaviour the ledger must be empty and /proc/self/fd and /proc/self/maps must be back at their "
      "baseline (so an unhooked creation is noticed too); in the middle of every 7th behaviour an unrelated child is "
      "spawned and reports the descriptors it was born with.",
      "The ledger sees what the hooks report (cross-checked with /proc); mio's epoll descriptor and tempfile's directory "
      "are observed through /proc and the file system only.",
      "TLC trace validation of recorded executions against the Resources.tla ledger + /proc cross-check",
      "DESIGN.md 3.9, 6 (C11)")
check("C18", "other",
      "Restricted claim (see level_note). Frag.tla's buffer discipline (every receive window inside the buffer's capacity, "
      "starting at its current length, never beyond the announced total; returned length = sent length; nothing "
      "truncated) is validated by TLC on recorded executions of message shapes around every packet boundary with 0, 1, "
      "capacity-1 and capacity attachments and ENOBUFS retries; the Resources.tla ledger (munmap matches a live mapping, "
      "no double free of control buffers, no close of an unowned descriptor, no slice from a null base or outside a live "
      "mapping) is validated on the same runs and on zero-length and odd-length regions created from bytes and from a "
      "fill byte at both public API levels, each batch in a sacrificial process. A sample of the same TLC-generated "
      "shapes (half with capacity-1/capacity attachments; 400 quick, 4000 thorough) is replayed once more with valgrind "
      "memcheck as the observer: no invalid read/write/free, no buffer handed to the kernel beyond its allocation.",
      "A TLA+ model decides extent and lifetime discipline at the hook sites only; the memcheck replay of the model's "
      "shapes adds heap-level observation of those runs, but accesses inside stack frames, use-after-free inside "
      "libc/kernel copies and compiler-level UB - i.e. the AddressSanitizer run with pre-poisoned buffers the "
      "property's quantifier text names - are NOT decided and not claimed.",
      "TLC trace validation against Frag.tla (buffer windows) and the Resources.tla ledger; replay of the generated shapes under valgrind memcheck",
      "DESIGN.md 6 (C18)")
check("C19", "translation_validation",
      "Channels.tla is the ideal unbounded-FIFO model the property names. Single-threaded programs = its one-agent "
      "behaviours (exhaustive to 3 operations, TLC-simulated to 60 operations over 6 channels with typed and bytes "
      "channels, regions, embedded endpoints, the three receive variants) and OneShot.tla behaviours without a blocked "
      "accept; every program is executed on the os, memfd and in-process builds of the same interpreter and compared with "
      "the model step by step (values, order, empty, disconnected, send ok/failed; error codes and select batching are "
      "not compared), which also makes the three builds agree with each other.",
      "Receiver sets are not yet part of the differential programs (unix sets: C06); macOS/Windows do not build here.",
      "differential execution of TLC-generated programs on three builds against the TLA+ model",
      "DESIGN.md 3.5, 6 (C19)")
