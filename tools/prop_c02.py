"""C02 - messages are delivered exactly once, whole, and in the order they were sent."""
import transcheck


def plans(tier):
    R = "recv"
    base = [
        {"name": "2s-21-3", "msgs": [[2, 1], [3]], "plan": [R] * 4, "simulate": 25},
        {"name": "3s-2-2-2", "msgs": [[2], [2], [2]], "plan": [R] * 4, "simulate": 25},
        {"name": "2s-32-23-poll", "msgs": [[3, 2], [2, 3]], "plan": ["try", R, "try", R, "timeout", R, R, R, R],
         "simulate": 25, "liveness": False},
        {"name": "2s-proc", "msgs": [[2, 1], [1, 3]], "plan": [R] * 5, "procs": [2], "simulate": 15},
    ]
    if tier == "quick":
        return base
    for p in base:
        p["simulate"] = 400
    return base + [
        {"name": "3s-32-23-13", "msgs": [[3, 2], [2, 3], [1, 3]], "plan": [R] * 7, "simulate": 400, "liveness": False},
        {"name": "3s-procs", "msgs": [[3, 1], [2, 2], [1, 3]], "plan": [R] * 7, "procs": [2, 3], "simulate": 200,
         "liveness": False},
    ]


def run(tier):
    res = transcheck.campaign("C02", plans(tier), "exactly-once, whole, ordered delivery")
    # call level: free-running senders (1..8; threads on own handles, clones, spawned processes; up to 24 messages each,
    # single- and multi-packet) against six receiver behaviours, every delivery validated against FifoTrace.tla
    import fifocheck
    stages = [("os", 4096, None), ("os", None, 45)] if tier == "quick" else [
        ("os", 4096, 1500), ("os", None, 600), ("memfd", 4096, 300), ("inprocess", None, 300)]
    for k, (variant, sb, nsc) in enumerate(stages):
        r2 = fifocheck.campaign("C02", tier, variant=variant, sb=sb, nsc=nsc, models=(k == 0))
        res["violations"] += r2["violations"]
        for key in ("states", "transitions", "traces_validated_against_impl", "evaluations", "distinct_nontrivial"):
            res["coverage"][key] = res["coverage"].get(key, 0) + r2["coverage"].get(key, 0)
        res["coverage"]["samples"] += r2["coverage"]["samples"][:1]
    res["assumptions"] = ["exhaustive in the model for the listed programs (<=3 senders x <=2 messages x <=3 packets); "
                          "schedules executed on the real code are a random sample of the model's behaviours",
                          "send-buffer size 4096 through the override hook so that 3 packets are ~12 KB",
                          "kernel premises K1, K5, K7 (validated by the Frag/Resources trace checks)",
                          "free-running stage: schedules are whatever the OS produces (seeded jitter); real-time order is "
                          "taken from one sequence number shared by all processes (an event before a call starts, one "
                          "after it returned); Fifo.tla shows the trace rules are necessary for a linearisable FIFO channel"]
    return res


def replay(rp):
    if str(rp.get("kind", "")).startswith("fifo"):
        print(rp.get("why") or rp.get("reject"))
        return 0
    return transcheck.replay_one(rp)
