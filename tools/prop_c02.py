"""C02 - messages are delivered exactly once, whole, and in the order they were sent."""
import transcheck


def plans(tier):
    R = "recv"
    base = [
        {"name": "2s-21-3", "msgs": [[2, 1], [3]], "plan": [R] * 4, "simulate": 25},
        {"name": "3s-2-2-2", "msgs": [[2], [2], [2]], "plan": [R] * 4, "simulate": 25},
        {"name": "2s-32-23-poll", "msgs": [[3, 2], [2, 3]], "plan": ["try", R, "try", R, "timeout", R, R, R, R],
         "simulate": 25, "liveness": False},
        {"name": "2s-proc", "msgs": [[2, 1], [1, 3]], "plan": [R] * 5, "procs": [2], "simulate": 15},
    ]
    if tier == "quick":
        return base
    for p in base:
        p["simulate"] = 400
    return base + [
        {"name": "3s-32-23-13", "msgs": [[3, 2], [2, 3], [1, 3]], "plan": [R] * 7, "simulate": 400, "liveness": False},
        {"name": "3s-procs", "msgs": [[3, 1], [2, 2], [1, 3]], "plan": [R] * 7, "procs": [2, 3], "simulate": 200,
         "liveness": False},
    ]


def run(tier):
    res = transcheck.campaign("C02", plans(tier), "exactly-once, whole, ordered delivery")
    res["assumptions"] = ["exhaustive in the model for the listed programs (<=3 senders x <=2 messages x <=3 packets); "
                          "schedules executed on the real code are a random sample of the model's behaviours",
                          "send-buffer size 4096 through the override hook so that 3 packets are ~12 KB",
                          "kernel premises K1, K5, K7 (validated by the Frag/Resources trace checks)"]
    return res


def replay(rp):
    return transcheck.replay_one(rp)
