#!/bin/bash
# Run checks against a seeded change: tools/seed_run.sh <name> <Cnn>...   (applies seeded/<name>/patch.diff to /repo and undoes it)
NAME=$1; shift
cd /repo && git diff --quiet || { echo "/repo is dirty"; exit 2; }
git apply /verif/seeded/$NAME/patch.diff || exit 2
cd /verif
for c in "$@"; do
  out=$(timeout 3000 ./check $c --tier ${TIER:-quick} 2>&1); rc=$?
  echo "$NAME $c exit=$rc $(echo "$out" | grep -E '^VIOLATION|^OK|^TOOL' | head -1)"
  echo "$out" | grep -E '^  violation' | head -2
done
git -C /repo checkout -- .
