"""Router.tla / RouterTrace.tla based checks (C07, C17): TLC checks the router design exhaustively;
free-running RouterProxy scenarios are recorded and validated against RouterTrace.tla (binding B3)."""
import json
import os
import random
import time

from transcheck import tla_seq
from vlib import (SPEC, ToolError, build_harness, case_hash, log, run_harness, run_tlc, require_ok,
                  seed, workdir, write_replay)

MAXR, MAXP = 13, 3


def tla_progs(progs):
    return "<<" + ", ".join("<<" + ", ".join('[op |-> "%s", r |-> %d]' % (o["op"], o.get("r", 0)) for o in p) + ">>"
                            for p in progs) + ">>"


def model(wd, name, rmsgs, progs, break_inner=False, panic_wake=False, liveness=True, extra_props="", timeout=3000):
    mod = "Q_" + name.replace("-", "_")
    with open(os.path.join(wd, mod + ".tla"), "w") as f:
        f.write("---- MODULE %s ----\nEXTENDS Router\nMCRMsgs == %s\nMCProg == %s\n====\n" % (
            mod, tla_seq(rmsgs), tla_progs(progs)))
    cfg = os.path.join(wd, mod + ".cfg")
    with open(cfg, "w") as f:
        f.write("SPECIFICATION FairSpec\nCONSTANTS\n  Routes = {%s}\n  RMsgs <- MCRMsgs\n  Proxies = {%s}\n  PProg <- MCProg\n"
                "  BreakInnerOnly = %s\n  PanicOnWakeClosed = %s\n"
                "INVARIANTS RouteOnceInOrder DroppedOnce DroppedAfterLast StoppedWhenReturned NoPanic\n"
                "PROPERTIES NoCallAfterReturn %s %s\n" % (
                    ", ".join(str(i + 1) for i in range(len(rmsgs))), ", ".join(str(i + 1) for i in range(len(progs))),
                    "TRUE" if break_inner else "FALSE", "TRUE" if panic_wake else "FALSE",
                    "ShutdownReturns" if liveness else "", extra_props))
    return run_tlc(os.path.join(wd, mod + ".tla"), cfg, cwd=wd, workers=8, timeout=timeout)


def gen_scenario(rnd, i, stop):
    n = rnd.randrange(1, 7)
    k = rnd.randrange(1, MAXP + 1)
    msgs = [rnd.choice([0, 1, 1, 2, 3, 5, 5, 40, 50]) if rnd.random() < 0.95 else 150 for _ in range(n)]
    kinds = [rnd.choice(["cb", "cb", "xbeam"]) for _ in range(n)]
    progs = [[] for _ in range(k)]
    for r in range(1, n + 1):
        progs[rnd.randrange(k)].append({"op": "add", "r": r})
    dropproxy = False
    if stop == "shutdown":
        for _ in range(rnd.choice([1, 1, 2, 3])):
            p = rnd.randrange(k)
            progs[p].insert(rnd.randrange(len(progs[p]) + 1), {"op": "shutdown"})
    elif stop == "dropproxy":
        dropproxy = True
    sc = {"id": i, "seed": rnd.randrange(1 << 30), "msgs": msgs, "kinds": kinds, "progs": progs,
          "dropproxy": dropproxy, "presend": [rnd.choice([0, 0, 1, m]) for m in msgs], "stop": stop}
    if i % 8 == 5 and n >= 2:
        # the consumer of one crossbeam-forwarding route drops its receiver at once; the sender goes on
        k = rnd.randrange(n)
        sc["kinds"][k] = "xbeam"
        sc["msgs"][k] = max(2, sc["msgs"][k] % 40)
        sc["xdrop"] = [j == k for j in range(n)]
    if i % 8 == 7:
        # more routes than the receiver set's events buffer holds (10), all ready in the same batch: every route is
        # registered first; then route 1's slow handler keeps the router busy while all the others receive traffic
        n = rnd.choice([11, 12, 13])
        sc["kinds"] = ["cb"] + [rnd.choice(["cb", "cb", "xbeam"]) for _ in range(n - 1)]
        sc["msgs"] = [1] + [rnd.choice([1, 2, 5]) for _ in range(n - 1)]
        sc["presend"] = [0] * n
        sc["cbsleep"] = [30000] + [0] * (n - 1)
        progs = [[] for _ in range(k)]
        for r in range(1, n + 1):
            progs[rnd.randrange(k)].append({"op": "add", "r": r})
        if stop == "shutdown":
            q = progs[rnd.randrange(k)]
            q.append({"op": "sleep", "us": 120000})
            q.append({"op": "shutdown"})
        sc["progs"] = progs
        sc["start_delay_us"] = [60000] + [70000] * (n - 1)
        sc["burst_after_us"] = 1
        return sc
    if i % 4 == 3 and n >= 3:
        # registration racing with traffic behind a slow handler: route 1 is a callback whose first call takes a while;
        # meanwhile bursts arrive on installed routes and further routes are registered, so that the router's next
        # batch holds many messages of several routes with a wake-up in between
        sc["kinds"][0] = "cb"
        sc["msgs"] = [rnd.choice([1, 2])] + [rnd.choice([12, 25, 40] if n <= 6 else [2, 5]) for _ in range(n - 1)]
        sc["presend"] = [0] * n
        sc["cbsleep"] = [rnd.choice([15000, 30000])] + [0] * (n - 1)
        late = rnd.sample(range(2, n + 1), rnd.randrange(1, n - 1))
        progs = [[] for _ in range(k)]
        for r in range(1, n + 1):
            if r not in late:
                progs[rnd.randrange(k)].append({"op": "add", "r": r})
        for r in late:
            q = progs[rnd.randrange(k)]
            q.append({"op": "sleep", "us": rnd.choice([2000, 5000, 9000])})
            q.append({"op": "add", "r": r})
        if stop == "shutdown":
            progs[rnd.randrange(k)].append({"op": "shutdown"})
        sc["progs"] = progs
        sc["burst_after_us"] = 1500
    elif i % 4 == 1:
        # widen the windows inside add_route/shutdown: between the wake-up and the shutdown message, between the
        # flag and the wake-up, between a route's message and its wake-up
        sites = ["router.shutdown.woke", "router.shutdown.flag", "router.add.msg"]
        sc["stalls"] = {rnd.choice(sites): rnd.choice([300, 2000, 8000]) for _ in range(rnd.randrange(1, 3))}
        # callbacks that are slow to destroy: shutdown() must not return (and closures must not be reported downstream)
        # before they are gone
        sc["dropsleep"] = [rnd.choice([0, 0, 3000, 15000]) for _ in range(n)]
    return sc


KEEP = {"h.scenario", "h.route", "h.add", "h.send", "h.sent", "h.senderdrop", "h.senderdropped", "h.dropproxy",
        "h.proxydropped", "h.cb", "h.guarddrop", "panic", "h.scenario.end",
        "router.add.locked.enter", "router.add.msg", "router.add.locked.leave", "router.shutdown.flag",
        "router.shutdown.msg", "router.shutdown.acked", "router.shutdown.leave",
        "router.wake", "router.install", "router.shutdown.take", "router.handler.enter", "router.handler.leave",
        "router.closed.enter"}
ROUTER_THREAD = {"router.wake", "router.install", "router.shutdown.take", "router.handler.enter", "router.handler.leave",
                 "router.closed.enter", "router.run.enter", "router.select.ret", "router.closed.leave", "router.run.leave"}


def convert(raw_path, out_path):
    evs = []
    with open(raw_path) as f:
        for line in f:
            try:
                evs.append(json.loads(line))
            except ValueError:
                pass
    evs.sort(key=lambda e: e["g"])
    out, index = [], []
    router_tid = None
    inside = False
    for e in evs:
        ev = e["ev"]
        if ev == "h.scenario":
            inside, router_tid = True, None
        if not inside:
            continue
        if ev == "router.run.enter" and router_tid is None:
            router_tid = e["t"]
        if ev in ROUTER_THREAD and e["t"] != router_tid:
            continue
        if ev == "panic" or ev in KEEP:
            a = e.get("a", -1)
            o = {"ev": ev, "p": e.get("px", a - 200 if 200 < a < 300 else 0), "r": e.get("r", 0), "x": e.get("x", 0),
                 "id": e.get("id", 0), "shutdown": e.get("shutdown", 0)}
            out.append(o)
            index.append(e["g"])
        if ev == "h.scenario.end":
            inside = False
    with open(out_path, "w") as f:
        for o in out:
            f.write(json.dumps(o) + "\n")
    return out, index


def validate(wd, name, compact):
    cfg = os.path.join(wd, name + ".trace.cfg")
    with open(cfg, "w") as f:
        f.write("SPECIFICATION TraceSpec\nCONSTANTS\n  Routes = {%s}\n  RMsgs = 0\n  Proxies = {%s}\n  PProg = 0\n"
                "  BreakInnerOnly = FALSE\n  PanicOnWakeClosed = FALSE\nINVARIANTS RouteOnceInOrder DroppedOnce TNoPanic\n"
                "POSTCONDITION TraceAccepted\nCHECK_DEADLOCK FALSE\n" % (
                    ", ".join(map(str, range(1, MAXR + 1))), ", ".join(map(str, range(1, MAXP + 1)))))
    r = run_tlc(os.path.join(SPEC, "RouterTrace.tla"), cfg, workers=1, env={"TRACE": compact},
                jvm=["-Xmx4g", "-Xss1g", "-Dtlc2.tool.queue.IStateQueue=StateDeque"], timeout=1800)
    reject = None
    lines = r.raw.splitlines()
    for i, line in enumerate(lines):
        if "@@REJECT" in line:
            reject = " ".join(x.strip() for x in lines[i:i + 12])
    return r, reject


def harness_judge(sc, o):
    """Property-level observations made by the harness itself."""
    if o.get("hang"):
        return "a proxy or sender thread did not finish within 20 s (shutdown/add_route deadlock?)"
    stopped = sc["stop"] != "none"
    for rt in o["routes"]:
        r = rt["r"]
        if sc.get("xdrop") and sc["xdrop"][r - 1]:
            continue        # its consumer is gone: nothing is owed there
        n = sc["msgs"][r - 1]
        got = rt["calls"] if sc["kinds"][r - 1] == "cb" else (
            sum([a["got"] for a in o["after_shutdown"] if a["r"] == r], []) + rt["xgot"])
        if got != sorted(set(got)) or any(x < 1 or x > n for x in got):
            return "route %d: delivered %s (not once/in order)" % (r, got)
        if got != list(range(1, len(got) + 1)):
            return "route %d: delivered %s (gap)" % (r, got)
        if not stopped and len(got) != n:
            return "route %d: %d of %d messages delivered although the router kept running" % (r, len(got), n)
        if sc["kinds"][r - 1] == "xbeam" and not stopped and rt["xdisc"] is not True:
            return "route %d: crossbeam receiver not disconnected after its channel closed" % r
    if sc.get("dropproxy") and o.get("stopped_after_drop") is False:
        return "3 s after the proxy was dropped callbacks are still alive / downstream receivers still connected (the router has not stopped)"
    if sc["stop"] != "none" and o.get("fd_delta", 0) > 0:
        return "a stopped router still holds %d descriptor(s) 2 s later" % o["fd_delta"]
    for a in o["after_shutdown"]:
        if not a["disconnected"]:
            return "route %d: downstream crossbeam receiver still connected right after shutdown() returned" % a["r"]
    return None


def campaign(pid, tier, stops, models):
    wd = workdir(pid.lower())
    build_harness("os")
    rnd = random.Random(seed())
    violations, distinct, samples = [], set(), []
    states = transitions = 0
    for name, rmsgs, progs, extra in models:
        r = model(wd, name, rmsgs, progs, extra_props=extra)
        require_ok(r, "Router " + name)
        if r.violation:
            rp = write_replay(pid, name + "-model", {"property": pid, "kind": "model", "invariant": r.violation,
                                                     "trace": r.trace[:6000]})
            violations.append({"what": "Router.tla: %s violated (%s)" % (r.violation, name), "replay": rp, "key": "model"})
        else:
            states += r.distinct
            transitions += r.generated
            log("  model %s: %d distinct states (%.1fs)" % (name, r.distinct, r.wall))
    nsc = 160 if tier == "quick" else 2000
    scs = [gen_scenario(rnd, i, stops[i % len(stops)]) for i in range(nsc)]
    validated = 0
    B = 40 if tier == "quick" else 100
    for b in range(0, nsc, B):
        chunk = scs[b:b + B]
        raw = os.path.join(wd, "router-%d.ndjson" % b)
        if os.path.exists(raw):
            os.remove(raw)
        p = run_harness("os", ["router"], stdin="\n".join(json.dumps(s) for s in chunk) + "\n",
                        env={"IPC_VERIF_TRACE": raw, "RUST_BACKTRACE": "0"}, timeout=1800)
        outs = {}
        for line in p.stdout.splitlines():
            if line.startswith("{"):
                o = json.loads(line)
                outs[o["id"]] = o
        for sc in chunk:
            o = outs.get(sc["id"])
            distinct.add(case_hash([sc["msgs"], sc["kinds"], sc["progs"], sc["dropproxy"]]))
            if o is None:
                rp = write_replay(pid, "sc-%d" % sc["id"], {"property": pid, "kind": "router", "scenario": sc,
                                                            "stderr": p.stderr[-2000:]})
                violations.append({"what": "router scenario %d: harness died (rc=%s): %s" % (
                    sc["id"], p.returncode, p.stderr[-300:]), "replay": rp, "key": "router:died"})
                break
            why = harness_judge(sc, o)
            if why:
                rp = write_replay(pid, "sc-%d" % sc["id"], {"property": pid, "kind": "router", "scenario": sc, "observed": o,
                                                            "why": why})
                violations.append({"what": "router scenario (%s): %s" % (sc["stop"], why), "replay": rp,
                                   "key": "router:" + why[:50]})
        if "PANIC-RECORDED" in p.stderr:
            rp = write_replay(pid, "panic-%d" % b, {"property": pid, "kind": "router", "scenario": chunk, "stderr": p.stderr[-3000:]})
            violations.append({"what": "a thread panicked while a router was being stopped/used: %s" % (
                [l for l in p.stderr.splitlines() if "PANIC-RECORDED" in l][0][:300]), "replay": rp, "key": "router:panic"})
        compact = os.path.join(wd, "router-%d.compact.ndjson" % b)
        evs, index = convert(raw, compact)
        tr, reject = validate(wd, "router-%d" % b, compact)
        require_ok(tr, "RouterTrace")
        if tr.violation or reject:
            rp = write_replay(pid, "trace-%d" % b, {"property": pid, "kind": "router-trace", "scenarios": chunk,
                                                    "violation": tr.violation, "reject": reject,
                                                    "tlc": (tr.trace or "")[-5000:]})
            violations.append({"what": "recorded router execution is not a behaviour of Router.tla: %s %s" % (
                tr.violation or "", (reject or "")[:400]), "replay": rp, "key": "router-trace:" + (reject or tr.violation or "")[:80]})
        else:
            validated += len(chunk)
            states += tr.distinct
            transitions += tr.generated
        if len(samples) < 3:
            samples.append({"scenario": chunk[0], "events_head": evs[:25]})
        os.remove(raw)
    log("  %d scenarios run, %d validated against RouterTrace.tla, %d violations" % (nsc, validated, len(violations)))
    cov = {"states": states, "transitions": transitions, "traces_validated_against_impl": validated,
           "evaluations": nsc, "distinct_nontrivial": len(distinct),
           "rule": "seeded scenarios: 1..6 routes (callback or crossbeam-forwarding) registered from 1..3 proxy threads, 0..5 "
                   "messages per route (some queued before registration), senders dropping at random points, stopped by %s; "
                   "distinct by (messages, kinds, programs)" % "/".join(stops),
           "samples": samples}
    return {"level": "model_checking", "coverage": cov, "violations": violations}
