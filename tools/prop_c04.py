"""C04 - endpoints sent inside messages keep their identity, position and backlog."""
import chancheck


def nontrivial(b):
    return any(o["op"] in ("recv", "drain") and o.get("res") == "msg" and
               any(s["k"] != "D" for s in o.get("slots", [])) for o in b["ops"])


def moves_receiver(b):
    return any(o["op"] == "send" and any(s["k"] == "R" for s in o.get("slots", [])) for o in b["ops"])


# an endpoint (or a region) travels in a message that is drained through a set and thrown away undeserialised: it must die
# with the message - the peer sees the disconnection / the broken pipe; exhaustive after the prescribed prelude
DISCARD_STORY = ["new", "setnew", "setadd", "send", "setdrain", "*"]
DISCARD = {"name": "story-discard", "variant": "os", "mode": "thread",
           "gen": dict(agents=(0,), maxch=2, maxreg=1, maxslots=1, maxsets=1, maxops=len(DISCARD_STORY), regionlens=(2,),
                       story=DISCARD_STORY, discard=True)}


def plans(tier):
    if tier == "quick":
        return [
            DISCARD,
            {"name": "bfs-slots2", "variant": "os", "mode": "thread",
             "gen": dict(agents=(0,), maxch=2, maxreg=1, maxslots=2, maxops=3, regionlens=(2,)), "filter": nontrivial},
            {"name": "bfs-chain-process", "variant": "os", "mode": "process",
             "gen": dict(agents=(0, 1), maxch=2, maxreg=0, maxslots=1, maxops=3), "filter": moves_receiver, "limit": 1500},
            {"name": "sim-3slots-process", "variant": "os", "mode": "process",
             "gen": dict(agents=(0, 1), maxch=4, maxreg=2, maxslots=3, maxops=18, minops=10, maxqueue=4,
                         regionlens=(1, 4), kinds=("typed", "bytes"), simulate=30, depth=120, tlcseed=chancheck.seed())},
        ]
    return [
        DISCARD, dict(DISCARD, name="story-discard-memfd", variant="memfd"),
        {"name": "bfs-slots1-d4", "variant": "os", "mode": "thread",
         "gen": dict(agents=(0,), maxch=2, maxreg=1, maxslots=1, maxops=4, regionlens=(2,)), "filter": nontrivial},
        {"name": "bfs-chain-process-d4", "variant": "os", "mode": "process",
         "gen": dict(agents=(0, 1), maxch=2, maxreg=0, maxslots=1, maxops=4), "filter": moves_receiver, "limit": 20000},
        {"name": "sim-4slots-process", "variant": "os", "mode": "process",
         "gen": dict(agents=(0, 1), maxch=5, maxreg=3, maxslots=4, maxops=60, minops=30, maxqueue=20,
                     regionlens=(1, 4, 7), kinds=("typed", "bytes"), simulate=150, depth=300, tlcseed=chancheck.seed())},
        {"name": "sim-memfd-thread", "variant": "memfd", "mode": "thread",
         "gen": dict(agents=(0, 1), maxch=5, maxreg=3, maxslots=3, maxops=40, minops=20, maxqueue=10,
                     regionlens=(1, 4, 7), kinds=("typed", "bytes"), simulate=80, depth=250, tlcseed=chancheck.seed() + 2)},
        {"name": "sim-inprocess", "variant": "inprocess", "mode": "thread",
         "gen": dict(agents=(0, 1), maxch=5, maxreg=3, maxslots=3, maxops=40, minops=20, maxqueue=10,
                     regionlens=(1, 4, 7), kinds=("typed", "bytes"), simulate=80, depth=250, tlcseed=chancheck.seed() + 3)},
    ]


def run(tier):
    res = chancheck.campaign("C04", plans(tier), nontrivial,
                             "endpoints embedded in messages (identity via tagged traffic and the probe/drain epilogue, "
                             "position via slot kinds, backlog via transferred receivers)")
    res["assumptions"] = ["values embed at most 4 slots per message in generated behaviours (C15 covers counts up to 300 at "
                          "the platform layer)", "acyclic channel families"]
    return res


def replay(rp):
    return chancheck.replay_one(rp)
