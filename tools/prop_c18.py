"""C18 - unsafe transport code stays inside its buffers for every message shape (restricted claim:
extent and lifetime discipline as far as a TLA+ model can decide it; see DESIGN.md section 6)."""
import json
import os
import random
import re
import shutil
import time

import chancheck
import fragcheck
import rescheck
from vlib import (ToolError, build_harness, case_hash, log, require_ok, run_harness, seed, workdir, write_replay)


def zero_cases():
    out = []
    i = 0
    for level in ("ipc", "platform"):
        for how in ("bytes", "byte"):
            for ln in (0, 1, 4095, 4096, 4097, 8193):
                i += 1
                out.append({"id": i, "level": level, "how": how, "len": ln})
    return out


BAD_ACCESS = re.compile(r"^==\d+== (Invalid (read|write|free)|Mismatched free|Source and destination overlap|"
                        r"Syscall param \S+ points to unaddressable|Jump to the invalid address|"
                        r"Process terminating with default action of signal 11)")


def memcheck(wd, cases, cap, n, rnd):
    """The TLC-generated message shapes once more, with valgrind's memory checker as the observer: every access of the
    process and every buffer handed to the kernel (recvmsg's control buffer at its announced length!) lies inside a live
    allocation, nothing is freed twice. Uninitialised padding of control messages handed to sendmsg is not counted (the
    kernel ignores it). Returns (cases run, [error block, ...])."""
    if not shutil.which("valgrind"):
        raise ToolError("valgrind not found")
    soft = [c for c in cases if not c.get("hard")]
    full = [c for c in soft if c["natt"] >= cap - 1]
    rest = [c for c in soft if c["natt"] < cap - 1]
    pick = rnd.sample(full, min(len(full), n // 2)) + rnd.sample(rest, min(len(rest), n - min(len(full), n // 2)))
    pick = [dict(c, id=i + 1) for i, c in enumerate(pick)]
    logf = os.path.join(wd, "memcheck.log")
    if os.path.exists(logf):
        os.remove(logf)
    results, _ = fragcheck.replay(wd, "memcheck", 4096, pick, trace=False, timeout=2400,
                                  wrapper=["valgrind", "-q", "--error-limit=no", "--num-callers=14", "--log-file=" + logf])
    blocks, cur = [], None
    if os.path.exists(logf):
        for line in open(logf, errors="replace"):
            if BAD_ACCESS.match(line):
                cur = [line.rstrip()]
                blocks.append(cur)
            elif cur is not None:
                if re.match(r"^==\d+== *$", line):
                    cur = None
                elif len(cur) < 14:
                    cur.append(line.rstrip())
    return pick, results, blocks


def region_stage(pid, wd):
    """Zero-length and odd-length regions at both API levels, each batch in a sacrificial process, with the ledger on and a
    quiescence point (ledger empty, /proc agrees) after every case."""
    violations, distinct = [], set()
    evaluations = validated = states = transitions = 0
    # 2. zero-length and odd-length regions at both API levels (each batch in a sacrificial process)
    zc = zero_cases()
    raw = os.path.join(wd, "zero.ndjson")
    pos = 0
    raws = []
    while pos < len(zc):
        part = raw + ".%d" % pos
        if os.path.exists(part):
            os.remove(part)
        p = run_harness("os", ["zeroshm"], env={"IPC_VERIF_TRACE": part, "RUST_BACKTRACE": "0"},
                        stdin="\n".join(json.dumps(c) for c in zc[pos:]) + "\n", timeout=600)
        raws.append(part)
        last, done = None, set()
        for line in p.stdout.splitlines():
            if line.startswith("{"):
                o = json.loads(line)
                if "begin" in o:
                    last = o["begin"]
                elif "id" in o:
                    done.add(o["id"])
                    evaluations += 1
                    if not o["ok"]:
                        c = [x for x in zc if x["id"] == o["id"]][0]
                        violations.append({"what": "region %s: %s" % (json.dumps(c), o["why"]), "key": "zero:" + o["why"][:40],
                                           "replay": write_replay(pid, "zero-%d" % o["id"], {"property": pid, "case": c})})
        remaining = [c for c in zc[pos:] if c["id"] not in done]
        if not remaining:
            break
        c = [x for x in zc if x["id"] == last][0]
        msg = [l for l in p.stderr.splitlines() if "panicked" in l or "unsafe precondition" in l]
        violations.append({"what": "creating/reading region %s killed the process: %s" % (json.dumps(c), " ".join(msg)[:300]),
                           "key": "zero:abort level=%s len=%d" % (c["level"], c["len"]),
                           "replay": write_replay(pid, "zero-%d" % c["id"], {"property": pid, "case": c, "stderr": p.stderr[-1500:]})})
        pos = zc.index(c) + 1
    for c in zc:
        distinct.add(case_hash(("zero", c["level"], c["how"], c["len"])))
    rc = os.path.join(wd, "zero.res.ndjson")
    evs = rescheck.convert(raws, rc)
    lr, why = rescheck.validate(wd, "zero", rc)
    require_ok(lr, "ResourcesTrace zero")
    if lr.violation:
        violations.append({"what": "ledger on zero/odd-length regions: %s" % why, "key": "ledger:" + (why or "")[:50],
                           "replay": write_replay(pid, "ledger-zero", {"property": pid, "why": why})})
    else:
        validated += len(zc)
        states += lr.distinct
        transitions += lr.generated
    for x in raws:
        os.remove(x)
    log("  regions: %d cases, ledger %s" % (len(zc), "clean" if not lr.violation else why))
    return {"violations": violations, "distinct": distinct, "evaluations": evaluations, "validated": validated,
            "states": states, "transitions": transitions}


def run(tier):
    wd = workdir("c18")
    build_harness("os")
    violations, distinct, samples = [], set(), []
    states = transitions = validated = evaluations = 0
    memchecked = 0
    # 1. message shapes of C01/C13/C15 through the platform layer: FragTrace (receive-window discipline, extents) and the
    #    ledger (control buffers, descriptors) on the same recorded run
    consts = fragcheck.code_constants([4096])
    rows = consts[4096]
    arith = fragcheck.fit_arith(rows) or {"Reserved": 32, "Hdr": 8, "Align": 8}
    maxfrag, frag, cap = rows[0]["maxfrag"], 4096 - arith["Reserved"], rows[0]["cmsgcap"]
    lens = fragcheck.boundary_lens(maxfrag, frag, ks=(1, 2, 3), radius=2 if tier == "quick" else 16)
    r = fragcheck.frag_model(wd, "shapes", 4096, arith, cap, lens, [0, 1, cap - 1, cap], 3 if tier == "quick" else 6)
    require_ok(r, "MCFrag shapes")
    if r.violation:
        violations.append({"what": "Frag.tla: %s violated" % r.violation, "key": "model",
                           "replay": write_replay("C18", "model", {"property": "C18", "trace": r.trace[:4000]})})
    else:
        states += r.distinct
        transitions += r.generated
        beh = fragcheck.behaviours(r)
        # transmissions that fail for good (an error that is not retried, injected as EINTR) at attempt 1..3, with the
        # control buffer (attachments) allocated
        for k in (1, 2, 3):
            rk = fragcheck.frag_model(wd, "shapes-hard%d" % k, 4096, arith, cap, lens, [0, 1, cap - 1], 3, liveness=False, hard=k)
            require_ok(rk, "MCFrag shapes hard")
            if not rk.violation:
                states += rk.distinct
                for b in fragcheck.behaviours(rk):
                    if len(b["fh"]) >= k:
                        b["hard"] = k
                        beh.append(b)
        rnd = random.Random(seed())
        if len(beh) > (1500 if tier == "quick" else 20000):
            beh = rnd.sample(beh, 1500 if tier == "quick" else 20000)
        cases = [{"id": i + 1, "len": b["len"], "natt": b["natt"], "mix": 2 + (i % 2), "fh": b["fh"], "hard": b.get("hard", 0),
                  "model": {"sres": b["sres"], "rres": b["rres"]}} for i, b in enumerate(beh)]
        results, raw = fragcheck.replay(wd, "shapes", 4096, cases)
        evaluations += len(results)
        for c in cases:
            distinct.add(case_hash((c["len"], c["natt"], tuple(c["fh"]))))
        by = {x["id"]: x for x in results}
        for c in cases:
            res = by.get(c["id"])
            if res is None:
                violations.append({"what": "harness died on shape %s" % json.dumps(c)[:200], "key": "died",
                                   "replay": write_replay("C18", "died", {"property": "C18", "case": c})})
                break
            if res.get("sres") == "died":
                violations.append({"what": "the process was killed by signal %s / aborted (memory corruption?) while this message was "
                                           "being sent or received: len=%d natt=%d fh=%s hard=%s %s" % (
                                               -res.get("rc", 0), c["len"], c["natt"], c["fh"], c.get("hard"),
                                               (res.get("stderr") or "").strip()[-160:]), "key": "crash",
                                   "replay": write_replay("C18", "crash-%d" % c["id"], {"property": "C18", "case": c, "observed": res})})
                continue
            if res.get("rres") == "ok" and res.get("rlen") != c["len"]:
                violations.append({"what": "received length %s for a message of %d bytes" % (res.get("rlen"), c["len"]),
                                   "key": "len", "replay": write_replay("C18", "len-%d" % c["id"], {"property": "C18", "case": c, "observed": res})})
        compact = os.path.join(wd, "shapes.compact.ndjson")
        fragcheck.convert_trace(raw, compact, results, arith["Hdr"])
        tr, reject = fragcheck.validate_trace(wd, "shapes", compact, arith["Hdr"])
        require_ok(tr, "FragTrace shapes")
        if tr.violation or reject:
            violations.append({"what": "buffer discipline: recorded execution is not a behaviour of Frag.tla: %s %s" % (
                tr.violation or "", reject or ""), "key": "fragtrace",
                "replay": write_replay("C18", "fragtrace", {"property": "C18", "violation": tr.violation, "reject": reject})})
        else:
            validated += len(results)
            states += tr.distinct
            transitions += tr.generated
        rc = os.path.join(wd, "shapes.res.ndjson")
        evs = rescheck.convert([raw], rc)
        lr, why = rescheck.validate(wd, "shapes", rc)
        require_ok(lr, "ResourcesTrace shapes")
        if lr.violation:
            violations.append({"what": "ledger on message shapes: %s" % why, "key": "ledger:" + (why or "")[:50],
                               "replay": write_replay("C18", "ledger-shapes", {"property": "C18", "why": why})})
        else:
            states += lr.distinct
            transitions += lr.generated
        samples.append({"part": "shapes", "cases": len(cases), "ledger_events": len(evs), "sample_case": cases[len(cases) // 2]})
        os.remove(raw)
        # 1b. the same shapes under a memory checker
        t0 = time.time()
        picked, mres, blocks = memcheck(wd, cases, cap, 400 if tier == "quick" else 4000, rnd)
        evaluations += len(mres)
        memchecked = len(mres)
        if blocks:
            sites = {}
            for b in blocks:
                site = " | ".join(x.split("== ", 1)[-1].strip() for x in b[:1] + [y for y in b[1:] if "ipc_channel::" in y][:2])
                sites.setdefault(site, b)
            for site, b in list(sites.items())[:4]:
                violations.append({"what": "memory checker (valgrind) on the replayed message shapes: %s" % site[:400],
                                   "key": "memcheck:" + site[:60],
                                   "replay": write_replay("C18", "memcheck-%d" % (abs(hash(site)) % 10000),
                                                          {"property": "C18", "kind": "memcheck", "cases": picked[:200], "report": b})})
        log("  memcheck: %d shapes under valgrind, %d bad-access reports (%.1fs)" % (len(mres), len(blocks), time.time() - t0))
        log("  shapes: %d cases, FragTrace %s, ledger %s" % (len(cases), "ok" if not (tr.violation or reject) else "REJECT",
                                                             "clean" if not lr.violation else why))
    # 2. zero-length and odd-length regions at both API levels
    rs = region_stage("C18", wd)
    violations += rs["violations"]
    distinct |= rs["distinct"]
    evaluations += rs["evaluations"]
    validated += rs["validated"]
    states += rs["states"]
    transitions += rs["transitions"]
    cov = {"explanation": "Restricted claim. What is decided: (a) Frag.tla's buffer discipline on recorded executions - every "
                          "receive window lies inside the buffer's capacity, starts at the current length, never passes the "
                          "announced total, returned length = sent length, nothing truncated - for message shapes around every "
                          "packet boundary with 0/1/capacity-1/capacity attachments and ENOBUFS retries; (b) the Resources.tla "
                          "ledger on the same runs and on zero/odd-length regions at both API levels: no munmap of a non-mapping "
                          "or with another length, no double free of a control buffer, no close of an unowned descriptor, no "
                          "slice built from a null base or outside a live mapping; (c) a sample of the same TLC-generated shapes "
                          "(half of them with capacity-1/capacity attachments) replayed under valgrind memcheck: no invalid read/"
                          "write/free and no buffer handed to the kernel that reaches beyond its allocation. What is NOT decided: accesses no hook "
                          "reports, use-after-free inside libc/kernel copies, compiler-level UB (the AddressSanitizer run the "
                          "property's quantifier mentions is outside this technique).",
           "states": states, "transitions": transitions, "traces_validated_against_impl": validated,
           "evaluations": evaluations, "distinct_nontrivial": len(distinct), "samples": samples,
           "shapes_replayed_under_memcheck": memchecked,
           "rule": "message shapes x fault patterns from Frag.tla; region cases = level x constructor x length"}
    return {"level": "other", "coverage": cov, "violations": violations,
            "assumptions": ["hooks at the unsafe sites report real addresses and lengths (src/verif.rs)",
                            "debug builds: the standard library's unsafe-precondition checks abort the sacrificial process"]}


def replay(rp):
    if rp.get("kind") == "memcheck":
        build_harness("os")
        cap = fragcheck.code_constants([4096])[4096][0]["cmsgcap"]
        cases = rp["cases"]
        _, _, blocks = memcheck(workdir("replay"), cases, cap, 2 * len(cases), random.Random(1))
        for b in blocks[:3]:
            print("\n".join(b))
        if blocks:
            print("VIOLATION property=C18 replay=(this file)")
            return 1
        print("no bad access reported now")
        return 0
    print(json.dumps(rp, indent=1)[:3000])
    return 0
