"""ProtoTrace.tla: the per-message packet protocol (dedicated socket pair per fragmented message, follow-ups only on it,
the sender's copy of its receiving end closed before the first follow-up, the receiver reading the rest only from the
descriptor that arrived last with the first packet) checked by TLC on the system calls recorded from any run."""
import json
import os

from vlib import SPEC, run_tlc

MAXT = 40


def convert(raw_path, out_path, reset_events=("f.scenario", "h.scenario", "case")):
    """Raw hook trace -> compact events of ProtoTrace.tla. Threads are renumbered per scenario."""
    evs = []
    with open(raw_path) as f:
        for line in f:
            try:
                evs.append(json.loads(line))
            except ValueError:
                pass
    evs.sort(key=lambda e: e["g"])
    out = []
    tid = {}
    in_send, in_recv = set(), set()
    pend = {}

    def T(e):
        k = (e["p"], e["t"])
        if k not in tid:
            tid[k] = len(tid) + 1
        return tid[k]

    overflow = False
    for e in evs:
        ev = e["ev"]
        if ev in reset_events:
            tid.clear()
            in_send.clear()
            in_recv.clear()
            pend.clear()
            out.append({"ev": "scn", "t": 1})
            continue
        k = (e["p"], e["t"])
        if ev == "os.send.enter":
            in_send.add(k)
            out.append({"ev": "s.enter", "t": T(e), "len": e.get("len", 0), "natt": e.get("nch", 0) + e.get("nshm", 0)})
        elif ev == "os.send.leave":
            in_send.discard(k)
            out.append({"ev": "s.leave", "t": T(e)})
        elif ev == "os.recv.enter":
            in_recv.add(k)
            out.append({"ev": "r.enter", "t": T(e)})
        elif ev == "os.recv.leave":
            in_recv.discard(k)
            out.append({"ev": "r.leave", "t": T(e)})
        elif ev == "socketpair.ret" and k in in_send and e.get("res", -1) == 0:
            out.append({"ev": "s.pair", "t": T(e), "i0": e["ino0"], "i1": e["ino1"]})
        elif ev in ("sendmsg.call", "send.call") and k in in_send:
            pend[k] = e
        elif ev == "sendmsg.ret" and k in in_send and k in pend:
            c = pend.pop(k)
            out.append({"ev": "s.msg", "t": T(e), "ino": c.get("ino", 0), "total": c.get("total", 0), "len": c.get("len", 0),
                        "nfds": c.get("nfds", 0), "last": max(c.get("lastino", 0), 0), "ok": 1 if e.get("res", -1) >= 0 else 0})
        elif ev == "send.ret" and k in in_send and k in pend:
            c = pend.pop(k)
            out.append({"ev": "s.frag", "t": T(e), "ino": c.get("ino", 0), "len": c.get("len", 0),
                        "ok": 1 if e.get("res", -1) >= 0 else 0})
        elif ev == "close.call" and k in in_send:
            out.append({"ev": "s.close", "t": T(e), "ino": e.get("ino", 0)})
        elif ev == "recvmsg.ret" and k in in_recv:
            out.append({"ev": "r.msg", "t": T(e), "res": e.get("res", -1), "total": max(e.get("total", 0), 0),
                        "nfds": e.get("nfds", 0), "last": max(e.get("lastino", 0), 0)})
        elif ev == "recv.call" and k in in_recv:
            pend[("r",) + k] = e
        elif ev == "recv.ret" and k in in_recv and ("r",) + k in pend:
            c = pend.pop(("r",) + k)
            out.append({"ev": "r.frag", "t": T(e), "ino": c.get("ino", 0), "res": e.get("res", -1)})
        elif ev == "close.call" and k in in_recv:
            out.append({"ev": "r.close", "t": T(e), "ino": e.get("ino", 0)})
        if len(tid) > MAXT:
            overflow = True
    # uniform records (TLC reads every field of every action's record lazily, but keep them total)
    keys = ("t", "len", "natt", "i0", "i1", "ino", "total", "nfds", "last", "ok", "res")
    with open(out_path, "w") as f:
        for o in out:
            for kk in keys:
                o.setdefault(kk, 0)
            f.write(json.dumps(o) + "\n")
    return out, overflow


def validate(wd, name, compact, hdr=8):
    cfg = os.path.join(wd, name + ".proto.cfg")
    with open(cfg, "w") as f:
        f.write("SPECIFICATION TraceSpec\nCONSTANTS\n  Threads = {%s}\n  Hdr = %d\nPOSTCONDITION TraceAccepted\n"
                "CHECK_DEADLOCK FALSE\n" % (", ".join(map(str, range(1, MAXT + 1))), hdr))
    r = run_tlc(os.path.join(SPEC, "ProtoTrace.tla"), cfg, workers=1, env={"TRACE": compact},
                jvm=["-Xmx4g", "-Xss1g", "-Dtlc2.tool.queue.IStateQueue=StateDeque"], timeout=1800)
    reject = None
    lines = r.raw.splitlines()
    for i, line in enumerate(lines):
        if "@@REJECT" in line:
            reject = " ".join(x.strip() for x in lines[i:i + 8])
    return r, reject
