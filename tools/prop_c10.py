"""C10 - non-blocking and timed receives never block, miss a message, or poison."""
import chancheck
import transcheck

R, T, W = "recv", "try", "timeout"


def plans(tier):
    base = [
        {"name": "1s-1-3", "msgs": [[1, 3]], "plan": [T, W, R, T, R, W, T], "simulate": 40},
        {"name": "2s-mixed", "msgs": [[2, 1], [1]], "plan": [W, T, R, T, W, R, T, R], "simulate": 40, "liveness": False},
        {"name": "1s-drop-only", "msgs": [[]], "plan": [T, W, R, T], "simulate": 10},
        {"name": "2s-proc", "msgs": [[1], [3]], "plan": [T, W, T, R, W, T], "procs": [2], "simulate": 25},
        # durations with a seconds part and a fraction (1250 ms, 2100 ms): only a few schedules, they take that long
        {"name": "timed-seconds", "msgs": [[1]], "plan": [W, W, R], "simulate": 1, "limit": 4, "expiring": [1250, 2100]},
    ]
    if tier == "quick":
        return base
    for p in base:
        p["simulate"] = 500
    return base + [
        {"name": "3s-long", "msgs": [[1, 2], [3], [1, 1]], "plan": [T, W, R, T, W, R, T, W, R, T], "simulate": 500,
         "liveness": False},
    ]


def polls(b):
    return any(o["op"] in ("recv", "drain") and o.get("mode") in ("try", "timeout") for o in b["ops"])


def chan_plans(tier):
    # call-level behaviours of Channels.tla that contain a try_recv / try_recv_timeout: their results do not depend
    # on which system calls the transport uses, so this stage keeps deciding when the system-call protocol changes
    if tier == "quick":
        return [
            {"name": "calls-bfs-1agent", "variant": "os", "mode": "thread",
             "gen": dict(agents=(0,), maxch=2, maxreg=0, maxslots=1, maxops=3), "filter": polls},
            {"name": "calls-sim-2agents", "variant": "os", "mode": "process",
             "gen": dict(agents=(0, 1), maxch=3, maxreg=0, maxslots=1, maxops=16, minops=8, maxqueue=3,
                         kinds=("typed", "bytes"), simulate=30, depth=100, tlcseed=chancheck.seed()), "filter": polls},
        ]
    return [
        {"name": "calls-bfs-1agent-d4", "variant": "os", "mode": "thread",
         "gen": dict(agents=(0,), maxch=2, maxreg=0, maxslots=1, maxops=4), "filter": polls},
        {"name": "calls-bfs-2agents-process-d4", "variant": "os", "mode": "process",
         "gen": dict(agents=(0, 1), maxch=1, maxreg=0, maxslots=1, maxops=4), "filter": polls, "limit": 20000},
        {"name": "calls-sim-inprocess", "variant": "inprocess", "mode": "thread",
         "gen": dict(agents=(0, 1), maxch=4, maxreg=0, maxslots=2, maxops=40, minops=15, maxqueue=4,
                     kinds=("typed", "bytes"), simulate=100, depth=200, tlcseed=chancheck.seed() + 1), "filter": polls},
    ]


def run(tier):
    res = transcheck.campaign("C10", plans(tier), "try_recv / try_recv_timeout / recv sequences")
    r2 = chancheck.campaign("C10", chan_plans(tier), polls, "results of try_recv / try_recv_timeout at call granularity")
    res["violations"] += r2["violations"]
    for k in ("states", "transitions", "traces_validated_against_impl", "evaluations", "distinct_nontrivial"):
        res["coverage"][k] = res["coverage"].get(k, 0) + r2["coverage"].get(k, 0)
    res["coverage"]["samples"] += r2["coverage"]["samples"][:2]
    res["assumptions"] = ["timed receives: a poll that the model ends by readiness is given 8 s and must return early "
                          "(<6 s); one that the model lets expire is given 0, 0.3, 1, 2, 3 or 20 ms and must not report "
                          "'empty' before floor(d) ms (same-thread monotonic clock)",
                          "a try_recv that goes to sleep in the kernel is detected through /proc/self/task/<tid>/syscall",
                          "premise K9 (O_NONBLOCK belongs to the open file description), K13 (poll does not time out early)"]
    return res


def replay(rp):
    if rp.get("kind") == "chan":
        return chancheck.replay_one(rp)
    return transcheck.replay_one(rp)
