"""C10 - non-blocking and timed receives never block, miss a message, or poison."""
import transcheck

R, T, W = "recv", "try", "timeout"


def plans(tier):
    base = [
        {"name": "1s-1-3", "msgs": [[1, 3]], "plan": [T, W, R, T, R, W, T], "simulate": 40},
        {"name": "2s-mixed", "msgs": [[2, 1], [1]], "plan": [W, T, R, T, W, R, T, R], "simulate": 40, "liveness": False},
        {"name": "1s-drop-only", "msgs": [[]], "plan": [T, W, R, T], "simulate": 10},
        {"name": "2s-proc", "msgs": [[1], [3]], "plan": [T, W, T, R, W, T], "procs": [2], "simulate": 25},
    ]
    if tier == "quick":
        return base
    for p in base:
        p["simulate"] = 500
    return base + [
        {"name": "3s-long", "msgs": [[1, 2], [3], [1, 1]], "plan": [T, W, R, T, W, R, T, W, R, T], "simulate": 500,
         "liveness": False},
    ]


def run(tier):
    res = transcheck.campaign("C10", plans(tier), "try_recv / try_recv_timeout / recv sequences")
    res["assumptions"] = ["timed receives: a poll that the model ends by readiness is given 8 s and must return early "
                          "(<6 s); one that the model lets expire is given 0, 0.3, 1, 2, 3 or 20 ms and must not report "
                          "'empty' before floor(d) ms (same-thread monotonic clock)",
                          "a try_recv that goes to sleep in the kernel is detected through /proc/self/task/<tid>/syscall",
                          "premise K9 (O_NONBLOCK belongs to the open file description), K13 (poll does not time out early)"]
    return res


def replay(rp):
    return transcheck.replay_one(rp)
