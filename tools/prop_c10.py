"""C10 - non-blocking and timed receives never block, miss a message, or poison."""
import chancheck
import transcheck

R, T, W = "recv", "try", "timeout"


def plans(tier):
    base = [
        {"name": "1s-1-3", "msgs": [[1, 3]], "plan": [T, W, R, T, R, W, T], "simulate": 40},
        {"name": "2s-mixed", "msgs": [[2, 1], [1]], "plan": [W, T, R, T, W, R, T, R], "simulate": 40, "liveness": False},
        {"name": "1s-drop-only", "msgs": [[]], "plan": [T, W, R, T], "simulate": 10},
        {"name": "2s-proc", "msgs": [[1], [3]], "plan": [T, W, T, R, W, T], "procs": [2], "simulate": 25},
        # durations with a seconds part and a fraction (1250 ms, 2100 ms): only a few schedules, they take that long
        {"name": "timed-seconds", "msgs": [[1]], "plan": [W, W, R], "simulate": 1, "limit": 4, "expiring": [1250, 2100]},
    ]
    if tier == "quick":
        return base
    for p in base:
        p["simulate"] = 500
    return base + [
        {"name": "3s-long", "msgs": [[1, 2], [3], [1, 1]], "plan": [T, W, R, T, W, R, T, W, R, T], "simulate": 500,
         "liveness": False},
    ]


def polls(b):
    return any(o["op"] in ("recv", "drain") and o.get("mode") in ("try", "timeout") for o in b["ops"])


def chan_plans(tier):
    # call-level behaviours of Channels.tla that contain a try_recv / try_recv_timeout: their results do not depend
    # on which system calls the transport uses, so this stage keeps deciding when the system-call protocol changes
    if tier == "quick":
        return [
            {"name": "calls-bfs-1agent", "variant": "os", "mode": "thread",
             "gen": dict(agents=(0,), maxch=2, maxreg=0, maxslots=1, maxops=3), "filter": polls},
            {"name": "calls-sim-2agents", "variant": "os", "mode": "process",
             "gen": dict(agents=(0, 1), maxch=3, maxreg=0, maxslots=1, maxops=16, minops=8, maxqueue=3,
                         kinds=("typed", "bytes"), simulate=30, depth=100, tlcseed=chancheck.seed()), "filter": polls},
        ]
    return [
        {"name": "calls-bfs-1agent-d4", "variant": "os", "mode": "thread",
         "gen": dict(agents=(0,), maxch=2, maxreg=0, maxslots=1, maxops=4), "filter": polls},
        {"name": "calls-bfs-2agents-process-d4", "variant": "os", "mode": "process",
         "gen": dict(agents=(0, 1), maxch=1, maxreg=0, maxslots=1, maxops=4), "filter": polls, "limit": 20000},
        {"name": "calls-sim-inprocess", "variant": "inprocess", "mode": "thread",
         "gen": dict(agents=(0, 1), maxch=4, maxreg=0, maxslots=2, maxops=40, minops=15, maxqueue=4,
                     kinds=("typed", "bytes"), simulate=100, depth=200, tlcseed=chancheck.seed() + 1), "filter": polls},
    ]


def signal_stage(tier):
    """Timed receives on an idle, connected channel while signals (handler without SA_RESTART) hit the waiting thread: the
    model has no action for a signal, so nothing the model forbids may happen because of one - in particular no 'empty'
    before the requested time, no message, no disconnection - and the channel works afterwards. (An error result that
    names the interruption is accepted: the property is silent about it.)"""
    import json
    from vlib import build_harness, run_harness, write_replay
    build_harness("os")
    cases, i = [], 0
    for d in ((40, 150) if tier == "quick" else (5, 40, 150, 600, 1500)):
        for sig in ([d // 3], [d // 4, d // 2], [1], [d // 2, d // 2 + 1, d // 2 + 2]):
            i += 1
            cases.append({"id": i, "d_ms": d, "sig_ms": sig})
    p = run_harness("os", ["sigwait"], stdin="\n".join(json.dumps(c) for c in cases) + "\n", timeout=600)
    outs = {}
    for line in p.stdout.splitlines():
        if line.startswith("{"):
            o = json.loads(line)
            outs[o["id"]] = o
    violations, interrupted = [], 0
    for c in cases:
        o = outs.get(c["id"])
        why = None
        if o is None:
            why = "the process died or hung (rc=%s): %s" % (p.returncode, (p.stderr or "")[-300:])
        elif o["res"] == "empty" and o["elapsed_us"] < c["d_ms"] * 1000:
            why = "try_recv_timeout(%d ms) interrupted by a signal reported 'empty' after only %d us" % (c["d_ms"], o["elapsed_us"])
        elif o["res"] in ("msg", "disc"):
            why = "try_recv_timeout on an idle connected channel returned '%s'" % o["res"]
        elif o["after"] != "msg":
            why = "after an interrupted timed receive a blocking receive did not deliver the next message: %s" % o["after"]
        elif o["after_us"] < 20000:
            why = "after an interrupted timed receive a blocking receive returned before the message was sent (%d us)" % o["after_us"]
        if o is not None and o["res"] == "error":
            interrupted += 1
        if why:
            violations.append({"what": "signal during a timed receive: " + why, "key": "signal:" + why[:40],
                               "replay": write_replay("C10", "signal-%d" % c["id"], {"property": "C10", "kind": "signal", "case": c,
                                                                                     "observed": o})})
            if o is None:
                break
    transcheck.log("  signals: %d timed receives interrupted by signals (%d answered with an error naming the interruption), %d bad" % (
        len(cases), interrupted, len(violations)))
    return violations, len(cases)


def run(tier):
    res = transcheck.campaign("C10", plans(tier), "try_recv / try_recv_timeout / recv sequences")
    sv, sn = signal_stage(tier)
    res["violations"] += sv
    res["coverage"]["evaluations"] = res["coverage"].get("evaluations", 0) + sn
    res["coverage"]["timed_receives_interrupted_by_signals"] = sn
    r2 = chancheck.campaign("C10", chan_plans(tier), polls, "results of try_recv / try_recv_timeout at call granularity")
    res["violations"] += r2["violations"]
    for k in ("states", "transitions", "traces_validated_against_impl", "evaluations", "distinct_nontrivial"):
        res["coverage"][k] = res["coverage"].get(k, 0) + r2["coverage"].get(k, 0)
    res["coverage"]["samples"] += r2["coverage"]["samples"][:2]
    res["assumptions"] = ["timed receives: a poll that the model ends by readiness is given 8 s and must return early "
                          "(<6 s); one that the model lets expire is given 0, 0.3, 1, 2, 3 or 20 ms and must not report "
                          "'empty' before floor(d) ms (same-thread monotonic clock)",
                          "a try_recv that goes to sleep in the kernel is detected through /proc/self/task/<tid>/syscall",
                          "premise K9 (O_NONBLOCK belongs to the open file description), K13 (poll does not time out early)"]
    return res


def replay(rp):
    if rp.get("kind") == "signal":
        import json
        from vlib import build_harness, run_harness
        build_harness("os")
        c = rp["case"]
        p = run_harness("os", ["sigwait"], stdin=json.dumps(c) + "\n", timeout=120)
        print(p.stdout[-1500:], p.stderr[-500:])
        o = None
        for line in p.stdout.splitlines():
            if line.startswith("{"):
                o = json.loads(line)
        bad = o is None or (o["res"] == "empty" and o["elapsed_us"] < c["d_ms"] * 1000) or o["res"] in ("msg", "disc") or o["after"] != "msg"
        if bad:
            print("VIOLATION property=C10 replay=(this file)")
            return 1
        print("case passes now")
        return 0
    if rp.get("kind") == "chan":
        return chancheck.replay_one(rp)
    return transcheck.replay_one(rp)
