"""C08 - one-shot server bootstrap connects two processes and leaves nothing behind."""
import json
import os
import random
import time

from vlib import (SPEC, ToolError, build_harness, case_hash, log, run_harness, run_tlc, require_ok, seed,
                  workdir, write_replay)


def gen(wd, name, servers, maxmsgs, maxops, simulate=None, depth=None, tlcseed=None):
    cfg = os.path.join(wd, name + ".cfg")
    with open(cfg, "w") as f:
        f.write("SPECIFICATION Spec\nCONSTANTS\n  Servers = {%s}\n  MaxMsgs = %d\n  MaxOps = %d\n"
                "INVARIANTS NamesDistinct InOrder NothingLeft Export\n" % (", ".join(map(str, servers)), maxmsgs, maxops))
    return run_tlc(os.path.join(SPEC, "MCOneShot.tla"), cfg, workers=8, simulate=simulate, depth=depth, tlcseed=tlcseed,
                   timeout=3000)


def replay_behs(behs, variant, mode, timeout=3000):
    for i, b in enumerate(behs):
        b["id"] = i
    verdicts = [None] * len(behs)
    pos = 0
    while pos < len(behs):
        chunk = behs[pos:]
        p = run_harness(variant, ["oneshot", mode], stdin="\n".join(json.dumps(b) for b in chunk) + "\n", timeout=timeout,
                        env={"IPC_VERIF_SENDBUF": 4096, "RUST_BACKTRACE": "0"})
        last = None
        for line in p.stdout.splitlines():
            if line.startswith("{"):
                o = json.loads(line)
                if "begin" in o:
                    last = o["begin"]
                elif "id" in o:
                    verdicts[o["id"]] = o
        if all(verdicts[b["id"]] is not None for b in chunk):
            break
        if last is None:
            raise ToolError("harness oneshot died: rc=%s %s" % (p.returncode, p.stderr[-2000:]))
        verdicts[last] = {"id": last, "ok": False, "why": "process died: rc=%s %s" % (p.returncode, p.stderr[-800:])}
        pos = last + 1
    return verdicts


def run(tier):
    wd = workdir("c08")
    violations, distinct, samples = [], set(), []
    states = transitions = replayed = 0
    rnd = random.Random(seed())
    plans = [("bfs-1srv", dict(servers=[1], maxmsgs=3, maxops=6 if tier == "quick" else 7),
              [("os", "thread"), ("os", "process"), ("os", "forked")]),
             ("sim-2srv", dict(servers=[1, 2], maxmsgs=3, maxops=14, simulate=40 if tier == "quick" else 4000, depth=40,
                               tlcseed=seed()), [("os", "process"), ("memfd", "thread")])]
    for name, kw, targets in plans:
        t0 = time.time()
        r = gen(wd, name, **kw)
        require_ok(r, "MCOneShot " + name)
        if r.violation:
            rp = write_replay("C08", name + "-model", {"property": "C08", "kind": "model", "invariant": r.violation,
                                                       "trace": r.trace[:5000]})
            violations.append({"what": "OneShot.tla: %s violated" % r.violation, "replay": rp, "key": "model"})
            continue
        states += r.distinct
        transitions += r.generated
        behs, seen = [], set()
        for line in r.lines:
            if line.startswith("@@"):
                h = case_hash(line)
                if h not in seen:
                    seen.add(h)
                    ops = json.loads(line[2:])
                    if any(o["op"] in ("accept", "accept.ret", "accept.fail", "dropserver") for o in ops):
                        behs.append({"ops": ops})
        limit = 2500 if tier == "quick" else 40000
        if len(behs) > limit:
            behs = rnd.sample(behs, limit)
        for variant, mode in targets:
            build_harness(variant)
            use = behs if mode == "thread" else behs[:max(200, len(behs) // 6)]
            if mode == "forked":
                # the forked child runs them with the client as a thread
                use = [b for b in behs if True][:max(300, len(behs) // 4)]
            if mode == "process" and name == "bfs-1srv":
                # a client that runs far ahead of accept: 60 multi-packet messages (~0.5 MB, more than the kernel queues)
                # are sent before the server accepts; every one must arrive, in order, and no send may fail
                use = use + [{"ops": [{"op": "new", "i": 1}, {"op": "connect", "i": 1, "res": "ok"},
                                      {"op": "runahead", "i": 1, "x": 1, "n": 60}, {"op": "sleep", "i": 1, "ms": 400},
                                      {"op": "accept", "i": 1, "x": 1, "big": True, "att": False},
                                      {"op": "recvn", "i": 1, "from": 2, "n": 59}, {"op": "collect", "i": 1},
                                      {"op": "exit", "i": 1}]}]
            if mode in ("thread", "process") and name == "bfs-1srv":
                # the model has no clock: a client may take any time between connecting and its first message while the server
                # sits in accept (a stutter of any length between two actions of the behaviour)
                for ms in ((2300,) if tier == "quick" else (2300, 5500, 11000)):
                    use = use + [{"ops": [{"op": "new", "i": 1}, {"op": "accept.call", "i": 1}, {"op": "connect", "i": 1, "res": "ok"},
                                          {"op": "sleep", "i": 1, "ms": ms},
                                          {"op": "send", "i": 1, "res": "ok", "big": False, "att": False, "x": 1},
                                          {"op": "accept.ret", "i": 1, "big": False, "att": False, "x": 1}]}]
            vs = replay_behs(use, variant, mode)
            nbad = 0
            for b, v in zip(use, vs):
                replayed += 1
                distinct.add(case_hash([(o["op"], o.get("res"), o.get("big"), o.get("att")) for o in b["ops"]]))
                if v is None or not v.get("ok"):
                    nbad += 1
                    if nbad <= 4:
                        rp = write_replay("C08", "%s-%s-%d" % (name, mode, b["id"]), {"property": "C08", "kind": "oneshot",
                                          "variant": variant, "mode": mode, "behaviour": b, "verdict": v})
                        violations.append({"what": "one-shot server [%s/%s]: %s at step %s %s" % (
                            variant, mode, (v or {}).get("why"), (v or {}).get("step"), json.dumps((v or {}).get("op"))[:200]),
                            "replay": rp, "key": "oneshot:" + str((v or {}).get("why"))[:60]})
            log("  %s on %s/%s: %d behaviours replayed, %d bad" % (name, variant, mode, len(use), nbad))
        if behs:
            samples.append({"plan": name, "behaviour": behs[len(behs) // 2]["ops"]})
        log("  %s: TLC %d states (%.1fs); total %.1fs" % (name, r.distinct, r.wall, time.time() - t0))
    cov = {"states": states, "transitions": transitions, "traces_validated_against_impl": replayed, "evaluations": replayed,
           "distinct_nontrivial": len(distinct),
           "rule": "behaviours of OneShot.tla that reach accept or a server drop: every order of {created, connect, send 1..3 "
                   "(small/multi-packet, with/without a region attached), client exit, accept called before or after, receive, "
                   "server drop} for one server exhaustively to the operation bound, two servers by simulation; client as "
                   "thread and as spawned process; distinct by the sequence of (operation, result, shape)",
           "samples": samples}
    return {"level": "model_checking", "coverage": cov, "violations": violations,
            "assumptions": ["premise K11", "the client 'process' is a spawned child of the harness; fork() clients are not used",
                            "up to 200 servers alive at once are exercised by the thorough tier's bulk part of C11"]}


def replay(rp):
    build_harness(rp["variant"])
    v = replay_behs([rp["behaviour"]], rp["variant"], rp["mode"])[0]
    print(json.dumps(v, indent=1))
    if v is None or not v.get("ok"):
        print("VIOLATION property=C08 replay=(this file)")
        return 1
    return 0


