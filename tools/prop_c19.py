"""C19 - all transports give the same answers to the same single-process program."""
import json
import random
import time

import chancheck
import prop_c08
from vlib import build_harness, case_hash, log, require_ok, seed, workdir, write_replay

BUILDS = ("os", "memfd", "inprocess")


def run(tier):
    wd = workdir("c19")
    for b in BUILDS:
        build_harness(b)
    rnd = random.Random(seed())
    violations, distinct, samples = [], set(), []
    states = transitions = programs = disagreements_checked = 0
    plans = [
        ("bfs-d3", dict(agents=(0,), maxch=2, maxreg=1, maxslots=1, maxops=3, regionlens=(2,), kinds=("typed", "bytes")), 2500),
        ("sim-6ch", dict(agents=(0,), maxch=5, maxreg=3, maxslots=3, maxops=60, minops=25, maxqueue=20,
                         regionlens=(0, 1, 3, 4), kinds=("typed", "bytes"), simulate=40 if tier == "quick" else 700,
                         depth=300, tlcseed=seed()), None),
    ]
    plans.append(("sim-sets", dict(agents=(0,), maxch=4, maxreg=0, maxslots=1, maxsets=2, maxops=40, minops=18, maxqueue=6,
                                   kinds=("typed",), simulate=30 if tier == "quick" else 500, depth=250, tlcseed=seed() + 5), None))
    # a message carrying an endpoint or a region is drained through a set and thrown away without being deserialised
    # (what it carries must die with it), then anything happens: exhaustive after the prescribed prelude
    for k, st in (("", ["new", "setnew", "setadd", "send", "setdrain", "*"]),
                  ("-2", ["new", "new", "setnew", "setadd", "setadd", "send", "send", "setdrain", "*"])):
        if k and tier == "quick":
            continue
        plans.append(("story-discard" + k, dict(agents=(0,), maxch=3 if k else 2, maxreg=1, maxslots=1, maxsets=1, maxops=len(st),
                                                regionlens=(3,), story=st, discard=True), 4000))
    for name, g, limit in plans:
        t0 = time.time()
        r = chancheck.gen(wd, name, **g)
        require_ok(r, "MCChannels " + name)
        states += r.distinct
        transitions += r.generated
        behs = chancheck.behaviours(r, 1)
        if limit and tier == "quick" and len(behs) > limit:
            behs = rnd.sample(behs, limit)
        elif name.startswith("story") and len(behs) > 20000:
            behs = rnd.sample(behs, 20000)
        per_build = {}
        for b in BUILDS:
            per_build[b] = chancheck.replay(wd, name, b, "thread", [dict(x) for x in behs], sb=4096)
        for i, beh in enumerate(behs):
            programs += 1
            distinct.add(case_hash(chancheck.classify(beh)))
            oks = {b: (per_build[b][i] or {}).get("ok") for b in BUILDS}
            disagreements_checked += 1
            for b in BUILDS:
                v = per_build[b][i]
                if v is None or not v.get("ok"):
                    rp = write_replay("C19", "%s-%s-%d" % (name, b, i), {"property": "C19", "kind": "chan", "variant": b,
                                      "mode": "thread", "sb": 4096, "behaviour": beh, "verdict": v, "all_builds": oks})
                    violations.append({"what": "program differs from the ideal model on the %s build (others: %s): %s at step %s" % (
                        b, oks, (v or {}).get("why"), (v or {}).get("step")), "replay": rp,
                        "key": "c19:%s:%s" % (b, str((v or {}).get("why"))[:50])})
                    break
            if len(violations) > 8:
                break
        if behs:
            samples.append({"plan": name, "program": behs[len(behs) // 2]["ops"][:14]})
        log("  %s: %d programs on %s (%.1fs)" % (name, len(behs), "/".join(BUILDS), time.time() - t0))
    # one-shot servers in one process (client = thread)
    r = prop_c08.gen(wd, "oneshot", servers=[1], maxmsgs=2, maxops=5 if tier == "quick" else 6)
    require_ok(r, "MCOneShot")
    states += r.distinct
    transitions += r.generated
    behs, seen = [], set()
    for line in r.lines:
        if line.startswith("@@"):
            h = case_hash(line)
            if h not in seen:
                seen.add(h)
                ops = json.loads(line[2:])
                # a blocked accept needs a second thread: not a single-threaded program
                if not any(o["op"] in ("accept.call", "accept.fail") for o in ops):
                    behs.append({"ops": ops})
    per_build = {b: prop_c08.replay_behs([dict(x) for x in behs], b, "thread") for b in BUILDS}
    for i, beh in enumerate(behs):
        programs += 1
        disagreements_checked += 1
        distinct.add(case_hash([(o["op"], o.get("res")) for o in beh["ops"]]))
        for b in BUILDS:
            v = per_build[b][i]
            if v is None or not v.get("ok"):
                oks = {bb: (per_build[bb][i] or {}).get("ok") for bb in BUILDS}
                rp = write_replay("C19", "oneshot-%s-%d" % (b, i), {"property": "C19", "kind": "oneshot", "variant": b,
                                  "mode": "thread", "behaviour": beh, "verdict": v, "all_builds": oks})
                violations.append({"what": "one-shot program differs from the ideal model on the %s build (others: %s): %s at step %s %s" % (
                    b, oks, (v or {}).get("why"), (v or {}).get("step"), json.dumps((v or {}).get("op"))), "replay": rp,
                    "key": "c19-oneshot:%s:%s" % (b, str((v or {}).get("why"))[:60])})
                break
    log("  oneshot: %d programs on %s" % (len(behs), "/".join(BUILDS)))
    cov = {"programs": programs, "disagreements_checked": disagreements_checked, "states": states, "transitions": transitions,
           "traces_validated_against_impl": programs * len(BUILDS), "evaluations": programs * len(BUILDS),
           "distinct_nontrivial": len(distinct), "samples": samples,
           "rule": "single-threaded programs = behaviours of Channels.tla with one agent (exhaustive to 3 operations, simulated "
                   "to 60 operations over 6 channels, <=20 queued) and of OneShot.tla without a blocked accept; each executed "
                   "on the os, memfd and in-process builds and compared step by step with the model (error codes and select "
                   "batching are not part of the comparison)"}
    return {"level": "translation_validation", "coverage": cov, "violations": violations,
            "assumptions": ["receiver sets in the differential programs carry messages without embedded endpoints; the "
                            "number of events per select call is not compared", "macOS/Windows back-ends do not build here"]}


def replay(rp):
    if rp.get("kind") == "oneshot":
        return prop_c08.replay(rp)
    return chancheck.replay_one(rp)
