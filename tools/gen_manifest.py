#!/usr/bin/env python3
"""Writes /verif/MANIFEST.json from the table below (kept in one place so that it stays valid)."""
import json
import os
import subprocess

HERE = os.path.dirname(os.path.dirname(os.path.abspath(__file__)))

CHECKS = {}
NOT_APPLICABLE = {}


def check(pid, category, text, note, technique, design_ref, thorough=True):
    CHECKS[pid] = {
        "property_id": pid,
        "quick_cmd": "./check %s --tier quick" % pid,
        "evidence_file": "evidence/%s.json" % pid,
        "replay_cmd_template": "./check replay {path}",
        "engine": "tlc+harness",
        "level_claimed": {"category": category, "text": text, "design_ref": design_ref},
        "level_note": note,
        "technique": technique,
    }
    if thorough:
        CHECKS[pid]["thorough_cmd"] = "./check %s --tier thorough" % pid


exec(open(os.path.join(HERE, "tools", "manifest_table.py")).read())

props = [json.loads(l)["id"] for l in open(os.path.join(HERE, "properties.jsonl"))]
for p in props:
    if p not in CHECKS and p not in NOT_APPLICABLE:
        NOT_APPLICABLE[p] = "check not built yet in this session (planned, see DESIGN.md section 6)"

hook_commits = subprocess.run(["git", "-C", "/repo", "log", "--format=%H", "--grep=^verif hooks"],
                              stdout=subprocess.PIPE, text=True).stdout.split()

manifest = {
    "version": 1,
    "setup_cmd": "./setup.sh",
    "hooks": {
        "guard": "ipc_channel_verif",
        "enable": "RUSTFLAGS='--cfg ipc_channel_verif' (set in /verif/harness/.cargo/config.toml; the harness has a path dependency on /repo)",
        "baseline_off_cmd": "cd /repo && cargo nextest run --workspace --no-fail-fast --test-threads 8 --offline",
        "source_commits": list(reversed(hook_commits)),
        "add_only": True,
    },
    "engines": [
        {"name": "tlc+harness", "path": "check",
         "serves_properties": sorted(CHECKS),
         "kind_free_text": "TLA+ specifications in spec/ checked by TLC; behaviours exported by TLC are replayed "
                           "through the real crate by the Rust harness (harness/), and executions recorded by the "
                           "cfg(ipc_channel_verif) hooks are validated against *Trace.tla by TLC"},
    ],
    "checks": [CHECKS[p] for p in props if p in CHECKS],
    "not_applicable": [{"property_id": p, "reason": NOT_APPLICABLE[p]} for p in props if p in NOT_APPLICABLE],
    "notes": "See DESIGN.md. known_findings.json lists genuine defects (fixed ones with their commit).",
}
with open(os.path.join(HERE, "MANIFEST.json"), "w") as f:
    json.dump(manifest, f, indent=1)
    f.write("\n")
print("MANIFEST.json: %d checks, %d not applicable" % (len(manifest["checks"]), len(manifest["not_applicable"])))
