"""C03 - disconnection is reported exactly when no sender can exist any more."""
import chancheck


def nontrivial(b):
    return any(w for w in b.get("wakes", [])) or any(
        o["op"] in ("recv", "drain") and o.get("res") in ("disc", "empty") for o in b["ops"])


# a set of four members, one closure seen by the set, two arbitrary operations, another look at the set: what the set
# reports (ids!) after a member left from the front, the middle or the end - exhaustive after the prescribed prelude
SET_STORY = ["new", "new", "new", "setnew", "setadd", "setadd", "setadd", "setadd", "drop", "setdrain", "*", "*", "setdrain"]
SET_GEN = dict(agents=(0,), maxch=3, maxreg=0, maxslots=0, maxsets=1, maxops=len(SET_STORY), maxqueue=2, story=SET_STORY)


def plans(tier):
    if tier == "quick":
        return [
            {"name": "story-set4-os", "variant": "os", "mode": "thread", "gen": SET_GEN},
            {"name": "story-set4-inprocess", "variant": "inprocess", "mode": "thread", "gen": SET_GEN},
            {"name": "bfs-1agent", "variant": "os", "mode": "thread",
             "gen": dict(failsends=True, agents=(0,), maxch=2, maxreg=0, maxslots=1, maxops=3), "filter": nontrivial},
            {"name": "bfs-2agents-process", "variant": "os", "mode": "process",
             "gen": dict(agents=(0, 1), maxch=1, maxreg=0, maxslots=1, maxops=3), "filter": nontrivial, "limit": 1500},
            {"name": "sim-2agents-thread", "variant": "os", "mode": "thread",
             "gen": dict(failsends=True, agents=(0, 1), maxch=3, maxreg=0, maxslots=2, maxops=16, minops=8, maxqueue=3,
                         kinds=("typed", "bytes"), simulate=40, depth=100, tlcseed=chancheck.seed())},
        ]
    return [
        {"name": "story-set4-os", "variant": "os", "mode": "thread", "gen": SET_GEN},
        {"name": "story-set4-memfd", "variant": "memfd", "mode": "thread", "gen": SET_GEN},
        {"name": "story-set4-inprocess", "variant": "inprocess", "mode": "thread", "gen": SET_GEN},
        {"name": "bfs-1agent-d4", "variant": "os", "mode": "thread",
         "gen": dict(failsends=True, agents=(0,), maxch=2, maxreg=0, maxslots=1, maxops=4), "filter": nontrivial},
        {"name": "bfs-2agents-process-d4", "variant": "os", "mode": "process",
         "gen": dict(agents=(0, 1), maxch=1, maxreg=0, maxslots=1, maxops=4), "filter": nontrivial, "limit": 20000},
        {"name": "bfs-2agents-thread-d4", "variant": "os", "mode": "thread",
         "gen": dict(agents=(0, 1), maxch=1, maxreg=0, maxslots=1, maxops=4), "filter": nontrivial},
        {"name": "sim-6ch-process", "variant": "os", "mode": "process",
         "gen": dict(failsends=True, agents=(0, 1), maxch=5, maxreg=0, maxslots=2, maxops=60, minops=25, maxqueue=4,
                     kinds=("typed", "bytes"), simulate=250, depth=300, tlcseed=chancheck.seed())},
        {"name": "sim-6ch-inprocess", "variant": "inprocess", "mode": "thread",
         "gen": dict(failsends=True, agents=(0, 1), maxch=5, maxreg=0, maxslots=2, maxops=40, minops=15, maxqueue=4,
                     kinds=("typed", "bytes"), simulate=60, depth=200, tlcseed=chancheck.seed() + 1)},
    ]


def run(tier):
    res = chancheck.campaign("C03", plans(tier), nontrivial,
                             "disconnection (empty/disconnected results, blocked receives woken by the last drop)")
    # the descriptor-level account (shared descriptors of clones, references in flight, cascading destruction of
    # queues, process exit) agrees with the handle-level predicates the behaviours above were generated from
    uh = [("q", dict(chans=2, procs=2, maxops=6))] if tier == "quick" else [
        ("t2", dict(chans=2, procs=2, maxops=8)), ("t3", dict(chans=3, procs=2, maxops=5))]
    chancheck.add_unix_handles("C03", res, chancheck.workdir("c03"), uh)
    res["assumptions"] = ["acyclic channel families (a receiver travels only over a channel with a smaller id)",
                          "agent 1 is a thread or a spawned process; its exit is a real thread end / process exit",
                          "a receive counts as blocked after 15 ms without returning"]
    return res


def replay(rp):
    return chancheck.replay_one(rp)
