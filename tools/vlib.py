"""Shared plumbing for the check driver: running TLC, building the harness, writing evidence."""
import hashlib
import json
import os
import re
import shutil
import subprocess
import sys
import time

VERIF = os.path.dirname(os.path.dirname(os.path.abspath(__file__)))
SPEC = os.path.join(VERIF, "spec")
OUT = os.path.join(VERIF, "out")
HARNESS = os.path.join(VERIF, "harness")
EVIDENCE = os.path.join(VERIF, "evidence")
REPO = os.environ.get("VERIF_REPO", "/repo")
TLA_CP = "/opt/veriftools/tla/tla2tools.jar:/opt/veriftools/tla/CommunityModules-deps.jar"


class ToolError(Exception):
    """Trouble with the tooling itself (exit 2, never a VIOLATION)."""


def seed():
    try:
        return int(os.environ.get("VERIF_SEED", "1"))
    except ValueError:
        return 1


def log(*a):
    print(*a, flush=True)


def workdir(name):
    d = os.path.join(OUT, name)
    shutil.rmtree(d, ignore_errors=True)
    os.makedirs(d, exist_ok=True)
    return d


# ----------------------------------------------------------------------------------------------
# TLC


class TlcResult:
    def __init__(self):
        self.ok = False
        self.violation = None  # name of violated invariant/property or "deadlock"
        self.generated = 0
        self.distinct = 0
        self.depth = 0
        self.lines = []  # PrintT payloads (strings)
        self.raw = ""
        self.coverage = {}  # action -> (distinct, total)
        self.wall = 0.0
        self.error = None
        self.trace = []  # counterexample states as text blocks


def run_tlc(module, cfg, cwd=None, workers=8, extra=None, env=None, timeout=1800, jvm=None,
            simulate=None, depth=None, coverage=False, tlcseed=None, check_deadlock=False,
            metadir=None):
    """Run TLC on `module` (a .tla path) with config `cfg`; returns TlcResult."""
    cwd = cwd or os.path.dirname(module)
    meta = metadir or os.path.join(OUT, "tlc-meta-%d-%d" % (os.getpid(), int(time.time() * 1000) % 100000))
    cmd = ["java", "-XX:+UseParallelGC"]
    cmd += jvm or ["-Xmx8g"]
    cmd += ["-DTLA-Library=" + SPEC]
    cmd += ["-cp", TLA_CP + ":" + SPEC, "tlc2.TLC", "-metadir", meta, "-cleanup", "-noGenerateSpecTE",
            "-workers", str(workers), "-config", cfg]
    if not check_deadlock:
        cmd += ["-deadlock"]
    if simulate:
        cmd += ["-simulate", "num=%d" % simulate]
    if depth:
        cmd += ["-depth", str(depth)]
    if coverage:
        cmd += ["-coverage", "1"]
    if tlcseed is not None:
        cmd += ["-seed", str(tlcseed)]
    cmd += extra or []
    cmd += [module]
    e = dict(os.environ)
    if env:
        e.update(env)
    t0 = time.time()
    try:
        p = subprocess.run(cmd, cwd=cwd, env=e, stdout=subprocess.PIPE, stderr=subprocess.STDOUT,
                           timeout=timeout, text=True, errors="replace")
    except subprocess.TimeoutExpired as ex:
        shutil.rmtree(meta, ignore_errors=True)
        raise ToolError("TLC timed out after %ds on %s" % (timeout, module)) from ex
    shutil.rmtree(meta, ignore_errors=True)
    r = TlcResult()
    r.wall = time.time() - t0
    r.raw = p.stdout
    parse_tlc(r, p.returncode)
    return r


_ACTION_COV = re.compile(r"^<(\w+) line .* of module (\w+)>: (\d+):(\d+)")


def parse_tlc(r, rc):
    out = r.raw
    for line in out.splitlines():
        m = re.search(r"(\d+) states generated, (\d+) distinct states found", line)
        if m:
            r.generated = int(m.group(1))
            r.distinct = int(m.group(2))
        m = re.search(r"The number of states generated: (\d+)", line)
        if m:
            r.generated = int(m.group(1))
            r.distinct = max(r.distinct, int(m.group(1)))
        m = re.search(r"The depth of the complete state graph search is (\d+)", line)
        if m:
            r.depth = int(m.group(1))
        m = _ACTION_COV.match(line.strip())
        if m:
            r.coverage[m.group(1)] = (int(m.group(3)), int(m.group(4)))
        if line.startswith('"@@'):
            # PrintT of a string starting with @@ : payload is a TLA+ string literal
            try:
                r.lines.append(json.loads(line))
            except Exception:
                r.lines.append(line.strip('"'))
    m = re.search(r"Invariant (\S+) is violated", out)
    if m:
        r.violation = m.group(1)
    elif "Temporal properties were violated" in out or re.search(r"Temporal property \S+ was violated", out):
        m2 = re.search(r"Temporal property (\S+) was violated", out)
        r.violation = m2.group(1) if m2 else "temporal"
    elif re.search(r"Action property (\S+) is violated", out):
        r.violation = re.search(r"Action property (\S+) is violated", out).group(1)
    elif "Deadlock reached" in out:
        r.violation = "deadlock"
    elif re.search(r"Postcondition \S+ .* is false", out):
        r.violation = "postcondition"
    if "Model checking completed. No error has been found" in out or (
            "Finished in" in out and r.violation is None and "Error:" not in out):
        r.ok = True
    if r.violation is None and not r.ok:
        errs = [l for l in out.splitlines() if "Error" in l or "error" in l]
        r.error = "\n".join(errs[:10]) or ("TLC exit %d" % rc)
    if r.violation:
        # collect counterexample text
        idx = out.find("Error: The behavior up to this point is:")
        if idx < 0:
            idx = out.find("Error:")
        r.trace = out[idx:idx + 20000]


def require_ok(r, what):
    if r.error:
        raise ToolError("TLC failed on %s: %s\n%s" % (what, r.error, r.raw[-3000:]))


# ----------------------------------------------------------------------------------------------
# Harness


VARIANTS = {
    "os": [],
    "memfd": ["--features", "memfd"],
    "inprocess": ["--features", "inprocess"],
    "async": ["--features", "async"],
}


def harness_bin(variant):
    return os.path.join(HARNESS, "target-" + variant, "debug", "vharness")


def build_harness(variant="os", quiet=True):
    """(Re)build the harness against /repo's current working tree."""
    lock = os.path.join(HARNESS, "Cargo.lock")
    if not os.path.exists(lock):
        shutil.copy(os.path.join(REPO, "Cargo.lock"), lock)
    cmd = ["cargo", "build", "--offline", "--target-dir", "target-" + variant] + VARIANTS[variant]
    t0 = time.time()
    e = dict(os.environ)
    e["CARGO_NET_OFFLINE"] = "true"
    p = subprocess.run(cmd, cwd=HARNESS, env=e, stdout=subprocess.PIPE, stderr=subprocess.STDOUT, text=True)
    if p.returncode != 0:
        raise ToolError("harness build (%s) failed:\n%s" % (variant, p.stdout[-6000:]))
    if not quiet:
        log("built harness[%s] in %.1fs" % (variant, time.time() - t0))
    return harness_bin(variant)


def run_harness(variant, args, env=None, timeout=900, stdin=None, wrapper=None):
    e = dict(os.environ)
    e.pop("IPC_VERIF_TRACE", None)
    e.pop("IPC_VERIF_SEQ", None)
    e.pop("IPC_VERIF_SENDBUF", None)
    # errno is poisoned with EINTR before every real recv/recvmsg/send/sendmsg/poll of the code under test: a stale errno
    # is what a successful call leaves behind in real life too; code that consults it without a failure is exposed
    e["IPC_VERIF_ERRNO_POISON"] = "4"
    if env:
        e.update({k: str(v) for k, v in env.items()})
    if "IPC_VERIF_TRACE" in e and "IPC_VERIF_SEQ" not in e:
        # one sequence counter shared by the harness process and every child it spawns
        e["IPC_VERIF_SEQ"] = e["IPC_VERIF_TRACE"] + ".seq"
        if os.path.exists(e["IPC_VERIF_SEQ"]):
            os.remove(e["IPC_VERIF_SEQ"])
    try:
        p = subprocess.run(list(wrapper or []) + [harness_bin(variant)] + [str(a) for a in args], env=e, input=stdin,
                           stdout=subprocess.PIPE, stderr=subprocess.PIPE, timeout=timeout, text=True,
                           errors="replace")
    except subprocess.TimeoutExpired as ex:
        raise ToolError("harness %s timed out after %ds" % (args, timeout)) from ex
    # trouble of the harness itself, not of the code under test: it could not start one of its helper processes
    # (e.g. its binary was replaced while it ran)
    if re.search(r"spawn (agent|client|fifo-child|sched-child|lsfd)[^\n]*: Os \{ code: (2|11|12|24),", p.stderr or ""):
        raise ToolError("harness could not spawn a helper process: %s" % (p.stderr or "")[-400:])
    return p


# ----------------------------------------------------------------------------------------------
# Findings / evidence


def load_known():
    p = os.path.join(VERIF, "known_findings.json")
    if not os.path.exists(p):
        return {"known": [], "fixed": []}
    return json.load(open(p))


def case_hash(obj):
    return hashlib.sha1(json.dumps(obj, sort_keys=True).encode()).hexdigest()[:16]


def write_evidence(pid, tier, level, coverage, wall, violations=0, assumptions=None):
    os.makedirs(EVIDENCE, exist_ok=True)
    ev = {
        "property_id": pid,
        "tier": tier,
        "seed": seed(),
        "level": level,
        "coverage": coverage,
        "assumptions": assumptions or [],
        "wall_s": round(wall, 2),
        "violations": violations,
    }
    with open(os.path.join(EVIDENCE, pid + ".json"), "w") as f:
        json.dump(ev, f, indent=1)
        f.write("\n")


def write_replay(pid, name, obj):
    d = os.path.join(OUT, "replays")
    os.makedirs(d, exist_ok=True)
    p = os.path.join(d, "%s-%s.json" % (pid, name))
    with open(p, "w") as f:
        json.dump(obj, f, indent=1)
    return p
