"""C01 - values and byte payloads arrive exactly as sent, at every size."""
import json
import os
import random
import time

import fragcheck
from vlib import ToolError, build_harness, case_hash, log, run_harness, seed, write_replay


def lens_boundary(maxfrag, frag):
    return fragcheck.boundary_lens(maxfrag, frag)


def configs(tier):
    base = [
        {"name": "sb4096", "sb": 4096, "lens": lens_boundary, "atts": [0], "maxfault": 0},
        {"name": "sb8192", "sb": 8192, "lens": lens_boundary, "atts": [0], "maxfault": 0},
    ]
    if tier == "quick":
        return base + [
            # a send-buffer size that is not a multiple of the alignment: sender and receiver must agree on the first
            # packet's capacity to the byte
            {"name": "sb5001", "sb": 5001, "lens": lambda m, f: fragcheck.boundary_lens(m, f, ks=(1, 2), radius=16), "atts": [0],
             "maxfault": 0},
            {"name": "sys", "sb": None, "atts": [0], "maxfault": 0,
             "lens": lambda m, f: fragcheck.boundary_lens(m, f, ks=(1, 2), radius=16)},
        ]
    wide = lambda m, f: fragcheck.boundary_lens(m, f, ks=(1, 2, 3, 4, 5, 6, 9), radius=72)
    return [
        {"name": "sb4096", "sb": 4096, "lens": wide, "atts": [0], "maxfault": 0},
        {"name": "sb8192", "sb": 8192, "lens": wide, "atts": [0], "maxfault": 0},
        {"name": "sb5001", "sb": 5001, "lens": wide, "atts": [0], "maxfault": 0},
        {"name": "sb12347", "sb": 12347, "lens": wide, "atts": [0], "maxfault": 0},
        {"name": "sb65536", "sb": 65536, "lens": wide, "atts": [0], "maxfault": 0},
        {"name": "sb20000", "sb": 20000, "lens": wide, "atts": [0], "maxfault": 0},
        {"name": "sys", "sb": None, "lens": wide, "atts": [0], "maxfault": 0},
    ]


ANOMALIES = []


def api_level(tier, violations, samples):
    """Typed and bytes channels on the three builds (os, memfd, in-process)."""
    rnd = random.Random(seed())
    total_values = total_bytes = 0
    distinct = set()
    for variant in ("os", "memfd", "inprocess"):
        build_harness(variant)
        jobs = []
        if variant == "inprocess":
            sbs = [None]
        else:
            sbs = [4096, None] if tier == "quick" else [4096, 8192, 65536, None]
        for sb in sbs:
            eff = sb or 212992
            maxfrag = ((eff - 32 - 8) // 8) * 8
            frag = eff - 32
            lens = fragcheck.boundary_lens(maxfrag, frag, ks=(1, 2, 3, 4) if (sb or tier != "quick") else (1, 2))
            if tier != "quick" and sb is None:
                lens += [rnd.randrange(0, 4 << 20) for _ in range(200)]
                lens += [rnd.randrange(4 << 20, 64 << 20) for _ in range(2)] + [64 << 20]
            else:
                lens += [rnd.randrange(0, 1 << 20) for _ in range(20)]
            job = {"seed": rnd.randrange(1 << 30), "nvalues": 150 if tier == "quick" else 3000, "lens": lens,
                   "maxbytes": 3 * eff}
            env = {"IPC_VERIF_SENDBUF": sb} if sb else {}
            p = run_harness(variant, ["values"], env=env, stdin=json.dumps(job) + "\n", timeout=1500)
            out = None
            for line in p.stdout.splitlines():
                if line.startswith("{"):
                    out = json.loads(line)
            if out is None:
                rp = write_replay("C01", "values-%s-%s" % (variant, sb), {"property": "C01", "kind": "values",
                                  "variant": variant, "sb": sb, "job": job, "stderr": p.stderr[-3000:]})
                violations.append({"what": "values run died on %s sb=%s (exit %s): %s" % (variant, sb, p.returncode,
                                                                                          p.stderr[-300:]),
                                   "replay": rp, "key": "values-died"})
                continue
            total_values += out["values"]
            total_bytes += out["bytes"]
            for n in lens:
                distinct.add(case_hash((variant, sb, n)))
            if out["failures"]:
                # the job is deterministic up to thread timing: a failure is reported when the same job fails again in one
                # of three re-executions; a failure that never shows again is kept in the evidence, not reported
                again = 0
                for _ in range(3):
                    p2 = run_harness(variant, ["values"], env=env, stdin=json.dumps(job) + "\n", timeout=1500)
                    o2 = None
                    for line in p2.stdout.splitlines():
                        if line.startswith("{"):
                            o2 = json.loads(line)
                    if o2 is None or o2["failures"]:
                        again += 1
                if again == 0:
                    ANOMALIES.append({"variant": variant, "sb": sb, "failures": out["failures"][:3], "seed": job["seed"],
                                      "note": "not reproduced in 3 re-executions of the same job"})
                    log("  values[%s sb=%s]: %d failure(s) NOT reproduced in 3 re-executions (kept in the evidence): %s" % (
                        variant, sb, len(out["failures"]), json.dumps(out["failures"][0])[:200]))
                    out["failures"] = []
            for f in out["failures"][:5]:
                rp = write_replay("C01", "values-%s-%s" % (variant, sb), {"property": "C01", "kind": "values",
                                  "variant": variant, "sb": sb, "job": job, "failure": f})
                violations.append({"what": "API level on %s build, sb=%s: %s" % (variant, sb, json.dumps(f)[:400]),
                                   "replay": rp, "key": "values:" + f.get("kind", "")})
            if len(samples) < 8:
                samples.append({"variant": variant, "sb": sb, "nvalues": job["nvalues"], "lens_head": lens[:12]})
            log("  values[%s sb=%s]: %d values, %d byte payloads, %d failures" % (
                variant, sb, out["values"], out["bytes"], len(out["failures"])))
    return total_values, total_bytes, len(distinct)


def run(tier):
    res = fragcheck.campaign("C01", configs(tier), max_trace_cases=2000 if tier == "quick" else 20000)
    # all lengths, at model level: Apalache discharges the inductive invariant of the fragment loop
    import vlib
    wd = os.path.join(vlib.OUT, "c01")
    consts = fragcheck.code_constants([None])
    arith = fragcheck.fit_arith(consts[None]) or {}
    ok, note = fragcheck.apalache_inductive(wd, arith)
    res["coverage"]["apalache_inductive_invariant"] = note
    log("  apalache: " + note)
    if not ok:
        res["violations"].append({"what": "FragInd.tla: " + note, "key": "apalache",
                                  "replay": write_replay("C01", "apalache", {"property": "C01", "note": note})})
    nv, nb, nd = api_level(tier, res["violations"], res["coverage"]["samples"])
    cov = res["coverage"]
    cov["api_values_roundtripped"] = nv
    cov["api_byte_payloads_roundtripped"] = nb
    if ANOMALIES:
        cov["unreproduced_anomalies"] = ANOMALIES
    cov["evaluations"] += nv + nb
    cov["distinct_nontrivial"] += nd
    cov["rule"] += "; plus typed values (seeded family of nested serde shapes, floats by bit pattern) and byte payloads at " \
                   "boundary and random lengths on the os, memfd and in-process builds"
    res["assumptions"] = ["bincode's own value<->bytes fidelity is a dependency (values are still compared end to end)",
                          "send-buffer sizes below the system default are set through the IPC_VERIF_SENDBUF hook",
                          "macOS/Windows back-ends do not build here"]
    return res


def replay(rp):
    return fragcheck.replay_one(rp)
