"""SideTables.tla based checks: C14 (serialisation side) and C16 (deserialisation side)."""
import json
import os
import random
import time

from vlib import (SPEC, ToolError, build_harness, case_hash, log, run_harness, run_tlc, require_ok,
                  seed, workdir, write_replay)

CFG = """SPECIFICATION Spec
CONSTANTS
  Mode = "{mode}"
  MaxDepth = {maxdepth}
  MaxLen = {maxlen}
  SerVariant = "{servariant}"
  DeVariant = "{devariant}"
  InitMode = "{initmode}"
  MaxAtt = {maxatt}
  MaxRefs = {maxrefs}
INVARIANTS NothingRetained OwnAttachments FailedSendsSilent NoPanic OnlyAttached {export}
PROPERTIES DecodeTotal
"""


def gen(wd, name, mode, maxdepth=1, maxlen=2, maxatt=2, maxrefs=2, servariant="restore", devariant="checked",
        export=True, simulate=None, depth=None, tlcseed=None, workers=8, timeout=3000):
    cfg = os.path.join(wd, name + ".cfg")
    with open(cfg, "w") as f:
        f.write(CFG.format(mode=mode, maxdepth=maxdepth, maxlen=maxlen, maxatt=maxatt, maxrefs=maxrefs,
                           servariant=servariant, devariant=devariant, initmode="random" if simulate else "all", export="Export" if export else ""))
    return run_tlc(os.path.join(SPEC, "MCSideTables.tla"), cfg, workers=workers, simulate=simulate, depth=depth,
                   tlcseed=tlcseed, timeout=timeout)


NR_CFG = """SPECIFICATION Spec
CONSTANTS
  MaxDepth = {maxdepth}
  MaxLen = {maxlen}
  InitMode = "{initmode}"
  ToVariant = "{variant}"
INVARIANTS SelfContained NothingRetained {export}
PROPERTIES Terminates
"""


def gen_nested_recv(wd, name, maxdepth=1, maxlen=2, variant="swap", export=True, simulate=None, depth=None, tlcseed=None,
                    workers=8, timeout=3000):
    """NestedRecv.tla: values whose Deserialize impls receive and decode another message on the same thread."""
    cfg = os.path.join(wd, name + ".cfg")
    with open(cfg, "w") as f:
        f.write(NR_CFG.format(maxdepth=maxdepth, maxlen=maxlen, initmode="random" if simulate else "all", variant=variant,
                              export="Export" if export else ""))
    return run_tlc(os.path.join(SPEC, "MCNestedRecv.tla"), cfg, workers=workers, simulate=simulate, depth=depth,
                   tlcseed=tlcseed, timeout=timeout)


def cases_of(r):
    out = []
    seen = set()
    for line in r.lines:
        if line.startswith("@@"):
            h = case_hash(line)
            if h in seen:
                continue
            seen.add(h)
            out.append(json.loads(line[2:]))
    return out


def replay(cases, variant="os", timeout=3000):
    role = "nrecv" if cases and cases[0].get("mode") == "nrecv" else "script"
    for i, c in enumerate(cases):
        c["id"] = i
    verdicts = [None] * len(cases)
    pos = 0
    while pos < len(cases):
        chunk = cases[pos:]
        stdin = "\n".join(json.dumps(c) for c in chunk) + "\n"
        p = run_harness(variant, [role], stdin=stdin, timeout=timeout, env={"RUST_BACKTRACE": "0"})
        last_begin = None
        for line in p.stdout.splitlines():
            if not line.startswith("{"):
                continue
            o = json.loads(line)
            if "begin" in o:
                last_begin = o["begin"]
            elif "id" in o:
                verdicts[o["id"]] = o
        if all(verdicts[c["id"]] is not None for c in chunk):
            break
        if last_begin is None:
            raise ToolError("harness script died before starting: rc=%s\n%s" % (p.returncode, p.stderr[-3000:]))
        verdicts[last_begin] = {"id": last_begin, "ok": False, "died": True,
                                "why": "process died (abort/panic in a destructor?): rc=%s %s" % (
                                    p.returncode, p.stderr[-600:])}
        pos = last_begin + 1
    return verdicts


def shape(c):
    if c["mode"] == "ser":
        def sk(s):
            return [(x["k"], sk(x["inner"]), x["alive"], x["swallow"]) if x["k"] == "N" else x["k"] for x in s]
        return sk(c["script"])
    if c["mode"] == "nrecv":
        def rk(s):
            return [("NR", rk(x["inner"])) if x["k"] == "NR" else x["k"] for x in s]
        return ("nrecv", rk(c["script"]))
    if c["mode"] == "de":
        return (c["nch"], c["nshm"], [(r["k"], r["i"]) for r in c["refs"]])
    return (c["mode"], c.get("ty"), len(c.get("bytes", [])), tuple(c.get("kinds", [])))


def run_cases(pid, name, cases, violations, distinct, variant="os"):
    verdicts = replay(cases, variant)
    nbad = 0
    for c, v in zip(cases, verdicts):
        distinct.add(case_hash(shape(c)))
        if v is None or not v.get("ok"):
            nbad += 1
            if nbad <= 5:
                rp = write_replay(pid, "%s-%d" % (name, c["id"]), {"property": pid, "kind": "script", "variant": variant,
                                                                  "case": c, "verdict": v})
                what = (v or {}).get("why", "no verdict")
                violations.append({"what": "%s: %s; case %s" % (name, what, json.dumps(shape(c))[:300]),
                                   "replay": rp, "key": "script:" + what[:80]})
    return len(cases), nbad


def replay_one(rp):
    build_harness(rp.get("variant", "os"))
    v = replay([rp["case"]], rp.get("variant", "os"))[0]
    print(json.dumps(v, indent=1))
    if v is None or not v.get("ok"):
        print("VIOLATION property=%s replay=(this file)" % rp["property"])
        return 1
    print("case conforms now")
    return 0
