"""Frag.tla based checks: C01 (fidelity at every size), C13 (ENOBUFS), C15 (over-full messages),
and the buffer-discipline half of C18.

Pipeline per send-buffer configuration:
  1. ask the harness what the running code computes (fragment sizes, capacities) and fit the
     model's incidental constants to it;
  2. TLC: exhaustive check of Frag.tla for the chosen lengths/attachment counts/fault patterns,
     exporting every terminal behaviour;
  3. B1: replay every exported behaviour through the real platform layer with ENOBUFS injected at
     exactly the attempts of the behaviour; compare outcome and payload;
  4. B3: validate the system-call trace recorded during the replay against FragTrace.tla.
"""
import json
import os
import time

from vlib import (OUT, SPEC, ToolError, build_harness, case_hash, log, run_harness, run_tlc,
                  require_ok, seed, workdir)


def code_constants(sbs, variant="os"):
    """What the running code reports for each send-buffer size (None = system default)."""
    res = {}
    for sb in sbs:
        env = {}
        if sb:
            env["IPC_VERIF_SENDBUF"] = sb
        p = run_harness(variant, ["consts", str(sb or 212992)] + [str(x) for x in (4096, 8192, 65536, 212992, 100000, 4097, 4098, 4099, 4100, 4101, 4102, 4103, 10001, 33333)], env=env)
        if p.returncode != 0:
            raise ToolError("harness consts failed: " + p.stderr[-2000:])
        rows = json.loads(p.stdout)
        res[sb] = rows
    return res


def fit_arith(rows):
    """Fit Reserved/Hdr/Align of Frag.tla to the code's fragment_size/first_fragment_size."""
    rows = [r for r in rows if r["sb"] > 0]
    reserved = {r["sb"] - r["frag"] for r in rows}
    if len(reserved) != 1:
        return None
    reserved = reserved.pop()
    for align in (1, 2, 4, 8, 16, 32, 64, 128, 4096):
        for hdr in range(0, 129):
            if all(((r["frag"] - hdr) // align) * align == r["first"] for r in rows):
                return {"Reserved": reserved, "Hdr": hdr, "Align": align}
    return None


def boundary_lens(maxfrag, frag, ks=(1, 2, 3, 4), radius=16, extra=()):
    s = {0, 1, 7, 8, 9}
    for k in ks:
        b = maxfrag + (k - 1) * frag
        for d in range(-radius, radius + 1):
            if b + d >= 0:
                s.add(b + d)
    s.update(extra)
    return sorted(s)


CFG = """SPECIFICATION Spec
CONSTANTS
  SysSendBuf = {sb}
  Reserved = {Reserved}
  Hdr = {Hdr}
  Align = {Align}
  MinRetry = 2000
  CmsgCap = {cmsgcap}
  KernelMaxFds = 253
  Lens = {{{lens}}}
  Atts = {{{atts}}}
  MaxFaultAttempts = {maxfault}
  HardAt = {hard}
  Variant = "{variant}"
INVARIANTS TypeOK RetryAcceptable Intact AcceptedArrives NoMangle OverfullRefused NoFaultNoError AttachOnce BufferSafe {export}
{props}
"""


def frag_model(wd, name, sb, arith, cmsgcap, lens, atts, maxfault, variant="code", export=True,
               liveness=True, workers=8, hard=0):
    cfg = os.path.join(wd, name + ".cfg")
    with open(cfg, "w") as f:
        f.write(CFG.format(sb=sb, cmsgcap=cmsgcap, lens=", ".join(map(str, lens)),
                           atts=", ".join(map(str, atts)), maxfault=maxfault, hard=hard, variant=variant,
                           export="Export" if export else "",
                           props="PROPERTIES SendTerminates ReceiveTerminates" if liveness else "",
                           **arith))
    r = run_tlc(os.path.join(SPEC, "MCFrag.tla"), cfg, workers=workers, timeout=3000)
    return r


def behaviours(r):
    out = []
    for line in r.lines:
        if line.startswith("@@"):
            out.append(json.loads(line[2:]))
    return out


def replay(wd, name, sb, cases, variant="os", trace=True, timeout=3000, wrapper=None):
    """Run the harness `frag` role over `cases`; returns (results, trace path)."""
    tr = os.path.join(wd, name + ".trace.ndjson")
    if os.path.exists(tr):
        os.remove(tr)
    env = {}
    if sb:
        env["IPC_VERIF_SENDBUF"] = sb
    if trace:
        env["IPC_VERIF_TRACE"] = tr
    stdin = "\n".join(json.dumps(c) for c in cases) + "\n"
    p = run_harness(variant, ["frag"], env=env, stdin=stdin, timeout=timeout, wrapper=wrapper)
    results = []
    for line in p.stdout.splitlines():
        line = line.strip()
        if line.startswith("{"):
            results.append(json.loads(line))
    if p.returncode != 0 and len(results) < len(cases):
        if p.returncode > 0 and p.returncode not in (101, 134):
            raise ToolError("harness frag exited %d after %d/%d cases:\n%s" % (
                p.returncode, len(results), len(cases), p.stderr[-3000:]))
        # killed by a signal / aborted in the middle of a case (a crash of the code under test is data): that case is
        # the next one in order; the rest of the chunk is run in a fresh process without a trace
        victim = cases[len(results)]
        results.append({"id": victim["id"], "sres": "died", "rres": "died", "rc": p.returncode, "stderr": p.stderr[-600:]})
        rest = cases[len(results):]
        if rest:
            more, _ = replay(wd, name + "x", sb, rest, variant=variant, trace=False, timeout=timeout)
            results += more
    return results, tr


def convert_trace(raw_path, out_path, results, hdr=8):
    """Raw hook events -> the compact per-case events FragTrace.tla consumes. Pure pairing of each
    call with the return of the same thread; no state is guessed."""
    by_id = {r["id"]: r for r in results}
    evs = []
    with open(raw_path) as f:
        for line in f:
            try:
                evs.append(json.loads(line))
            except ValueError:
                pass
    evs.sort(key=lambda e: e["g"])
    out = []
    index = []  # for each compact event, the raw g (to point at it on rejection)
    cur = None
    n = len(evs)
    # index events per thread to find matching returns
    next_same_thread = {}
    last = {}
    for i in range(n - 1, -1, -1):
        t = (evs[i]["p"], evs[i]["t"])
        next_same_thread[i] = last.get(t)
        last[t] = i

    def ret_of(i, name):
        j = next_same_thread[i]
        while j is not None and evs[j]["ev"] != name:
            j = next_same_thread[j]
        return evs[j] if j is not None else None

    def put(g, **kw):
        base = {"e": "", "len": 0, "natt": 0, "total": 0, "n": 0, "nfds": 0, "ok": -1, "giveup": 0,
                "cap": 0, "fdcap": 0, "res": 0, "wp": 0, "ep": 0, "capacity": 0}
        base.update(kw)
        out.append(base)
        index.append(g)

    ded_ino = None
    chan_ino = None
    pending_recvmsg = {}
    pending_recv = {}
    for i, e in enumerate(evs):
        ev = e["ev"]
        a = e.get("a", -1)
        if ev == "case":
            cur = e["id"]
            ded_ino = None
            chan_ino = None
            put(e["g"], e="Case", len=e["len"], natt=e["natt"])
            continue
        if ev == "case.end":
            cur = None
            continue
        if ev == "case.skip":
            # drop what was recorded for this case (see harness: its follow-on message may race)
            while out and out[-1]["e"] != "Case":
                out.pop()
                index.pop()
            if out:
                out.pop()
                index.pop()
            cur = None
            continue
        if cur is None:
            continue
        if a == 1:  # the sending thread, inside OsIpcSender::send
            if ev == "os.send.enter":
                chan_ino = e["ino"]
            elif ev == "sendmsg.call":
                r = ret_of(i, "sendmsg.ret")
                ok = 1 if (r is not None and r["res"] > 0) else 0
                giveup = 0
                if not ok:
                    # did the code give up (next step of this thread that matters is the leave)?
                    j = next_same_thread[i]
                    while j is not None and evs[j]["ev"] not in ("sendmsg.call", "send.call", "socketpair.call", "os.send.leave"):
                        j = next_same_thread[j]
                    giveup = 1 if (j is None or evs[j]["ev"] == "os.send.leave") else 0
                put(e["g"], e="SendFirst", total=e["total"], n=e["len"], nfds=e["nfds"], ok=ok, giveup=giveup)
            elif ev == "send.call":
                r = ret_of(i, "send.ret")
                ok = 1 if (r is not None and r["res"] > 0) else 0
                giveup = 0
                if not ok:
                    j = next_same_thread[i]
                    while j is not None and evs[j]["ev"] not in ("sendmsg.call", "send.call", "os.send.leave"):
                        j = next_same_thread[j]
                    giveup = 1 if (j is None or evs[j]["ev"] == "os.send.leave") else 0
                put(e["g"], e="SendFollow", n=e["len"], ok=ok, giveup=giveup)
            elif ev == "socketpair.ret" and e.get("res", -1) >= 0:
                ded_ino = e["ino0"]
                put(e["g"], e="MkDed")
            elif ev == "close.call" and ded_ino is not None and e.get("ino") == ded_ino:
                put(e["g"], e="CloseDed")
            elif ev == "os.send.leave":
                sres = by_id.get(cur, {}).get("sres")
                put(e["g"], e="SendLeave", ok={"ok": 1, "err": 0}.get(sres, -1))
        elif a == 2:  # the receiving thread, inside recv()
            if ev == "recvmsg.call":
                pending_recvmsg[e["t"]] = e
            elif ev == "recvmsg.ret":
                c = pending_recvmsg.pop(e["t"], None)
                if c is not None and e["res"] > 0:
                    put(e["g"], e="RecvFirst", cap=c["cap"], fdcap=max(0, (c["ctlcap"] - 16) // 4),
                        res=e["res"], total=e["total"], nfds=e["nfds"])
            elif ev == "recv.window":
                put(e["g"], e="RecvWindow", wp=e["write_pos"], ep=e["end_pos"], capacity=e["capacity"],
                    total=e["total"])
            elif ev == "recv.call":
                pending_recv[e["t"]] = e
            elif ev == "recv.ret":
                c = pending_recv.pop(e["t"], None)
                if c is not None:
                    put(e["g"], e="RecvFollow", cap=c["cap"], res=max(0, e["res"]))
            elif ev == "os.recv.leave":
                rres = by_id.get(cur, {}).get("rres")
                put(e["g"], e="RecvLeave", ok=1 if rres == "ok" else (0 if rres in ("closed", "err") else -1))
    with open(out_path, "w") as f:
        for o in out:
            f.write(json.dumps(o) + "\n")
    return out, index


def validate_trace(wd, name, compact_path, hdr=8):
    cfg = os.path.join(wd, name + ".trace.cfg")
    src = open(os.path.join(SPEC, "FragTrace.cfg")).read().replace("Hdr = 8", "Hdr = %d" % hdr)
    with open(cfg, "w") as f:
        f.write(src)
    r = run_tlc(os.path.join(SPEC, "FragTrace.tla"), cfg, workers=1,
                env={"TRACE": compact_path,
                     "JAVA_TOOL_OPTIONS": "-Xss1g"},
                jvm=["-Xmx4g", "-Xss1g", "-Dtlc2.tool.queue.IStateQueue=StateDeque"], timeout=1800)
    reject = None
    for line in r.raw.splitlines():
        if "@@REJECT" in line:
            reject = line.strip()
    return r, reject


def judge(case, model, res):
    """Property-level verdict for one replayed behaviour. Returns (violation or None, matched)."""
    nofault = not any(case.get("fh", []))
    v = None
    sres, rres = res.get("sres"), res.get("rres")
    if sres == "died":
        v = "the process was killed by signal %s / aborted while this message was being sent or received: %s" % (
            -res.get("rc", 0), (res.get("stderr") or "").strip()[-200:])
    elif rres in ("panic", "hang"):
        v = "receiver %s" % rres
    elif sres == "panic":
        v = "send panicked"
    elif rres == "ok" and not (res.get("data_ok") and res.get("atts_ok")):
        v = "a message was delivered altered: data_ok=%s atts_ok=%s %s" % (
            res.get("data_ok"), res.get("atts_ok"), res.get("atts_why", ""))
    elif sres == "ok" and rres != "ok":
        v = "send reported success but the message did not arrive (receiver: %s)" % rres
    elif sres == "err" and nofault and model and model["sres"] == "ok":
        v = "send failed without any transmission fault: %s" % res.get("serr")
    elif sres == "ok" and res.get("follow_ok") is False:
        v = "channel unusable after an accepted message"
    matched = bool(model) and model["sres"] == sres and (
        (model["rres"] == "ok") == (rres == "ok"))
    return v, matched


def campaign(pid, configs, variant="os", max_trace_cases=4000, liveness=True):
    """Run model + replay + trace validation for each config; returns the result dict for
    check.finish(). configs: [{name, sb (None=system), lens(fn of consts)|lens, atts, maxfault, mixes}]"""
    wd = workdir(pid.lower())
    build_harness(variant)
    consts = code_constants(sorted({c["sb"] for c in configs}, key=lambda x: x or 0), variant)
    violations = []
    states = transitions = 0
    replayed = 0
    traces_ok = 0
    unmatched = 0
    distinct = set()
    samples = []
    notes = []
    for c in configs:
        rows = consts[c["sb"]]
        sys_row = rows[0]
        sb = sys_row["sys"]
        arith = fit_arith(rows)
        if arith is None:
            notes.append("code arithmetic outside the model's family; using the transcription 32/8/8")
            arith = {"Reserved": 32, "Hdr": 8, "Align": 8}
        cmsgcap = sys_row["cmsgcap"]
        maxfrag = sys_row["maxfrag"]
        fragsz = sb - arith["Reserved"]
        lens = c["lens"](maxfrag, fragsz) if callable(c["lens"]) else c["lens"]
        t0 = time.time()
        r = frag_model(wd, c["name"], sb, arith, cmsgcap, lens, c["atts"], c["maxfault"],
                       liveness=liveness and c.get("liveness", True))
        require_ok(r, "MCFrag " + c["name"])
        # the same model with transmission attempt k failing for good (an error that is not retried, injected as EINTR)
        hard_beh = []
        for k in c.get("hard", ()):
            rk = frag_model(wd, "%s-hard%d" % (c["name"], k), sb, arith, cmsgcap, lens, c["atts"], c["maxfault"],
                            liveness=False, hard=k)
            require_ok(rk, "MCFrag %s hard=%d" % (c["name"], k))
            if rk.violation and not r.violation:
                r = rk
                break
            states += rk.distinct
            transitions += rk.generated
            for b in behaviours(rk):
                if len(b["fh"]) >= k:          # the attempt was reached
                    b["hard"] = k
                    hard_beh.append(b)
        if r.violation:
            rp = vlib_replay(pid, c["name"] + "-model", {"property": pid, "kind": "model", "config": c["name"],
                                                         "invariant": r.violation, "trace": r.trace[:6000]})
            violations.append({"what": "model: %s violated in %s (constants reported by the code: sb=%d %s cap=%d)" % (
                r.violation, c["name"], sb, arith, cmsgcap), "replay": rp, "key": "model:" + r.violation})
            continue
        states += r.distinct
        transitions += r.generated
        beh = behaviours(r) + hard_beh
        log("  %s: TLC %d distinct states, %d behaviours (%d with a hard fault), %.1fs" % (
            c["name"], r.distinct, len(beh), len(hard_beh), r.wall))
        cases = []
        cid = 0
        for b in beh:
            for mix in (c.get("mixes") or [2]):
                if b["natt"] == 0 and mix != (c.get("mixes") or [2])[0]:
                    continue
                cid += 1
                cases.append({"id": cid, "len": b["len"], "natt": b["natt"], "mix": mix, "fh": b["fh"], "hard": b.get("hard", 0),
                              "model": {"sres": b["sres"], "rres": b["rres"]}})
        if c.get("limit") and len(cases) > c["limit"]:
            import random
            rnd = random.Random(seed())
            cases = rnd.sample(cases, c["limit"])
            cases.sort(key=lambda x: x["id"])
        # in chunks: once a config has produced plenty of violations there is no point in paying the
        # watchdog timeout of every further failing case
        results, raw = [], os.path.join(wd, c["name"] + ".trace.ndjson")
        raws = []
        for off in range(0, len(cases), 150):
            part, praw = replay(wd, "%s.%d" % (c["name"], off), c["sb"], cases[off:off + 150])
            results += part
            raws.append(praw)
            bad = sum(1 for x in part if x.get("rres") in ("hang", "panic") or (x.get("sres") == "ok" and x.get("rres") != "ok"))
            if bad > 20:
                cases = cases[:off + 150]
                break
        with open(raw, "w") as f:
            base = 0
            for pr in raws:
                if not os.path.exists(pr):
                    continue
                top = base
                for line in open(pr):
                    try:
                        e = json.loads(line)
                    except ValueError:
                        continue
                    e["g"] += base          # every chunk's process numbered its events from 0
                    top = max(top, e["g"] + 1)
                    f.write(json.dumps(e) + "\n")
                base = top
                os.remove(pr)
        by = {x["id"]: x for x in results}
        for case in cases:
            res = by.get(case["id"])
            if res is None:
                violations.append({"what": "harness died on case %s" % json.dumps(case), "key": "died",
                                   "replay": vlib_replay(pid, "%s-%d" % (c["name"], case["id"]),
                                                         {"property": pid, "kind": "frag", "sb": c["sb"], "case": case})})
                break
            replayed += 1
            v, matched = judge(case, case["model"], res)
            if not matched:
                unmatched += 1
            key = (case["len"] > maxfrag, min(case["natt"], cmsgcap + 2), tuple(case["fh"]), res.get("sres"), res.get("rres"))
            distinct.add(case_hash(key))
            if v:
                rp = vlib_replay(pid, "%s-%d" % (c["name"], case["id"]),
                                 {"property": pid, "kind": "frag", "sb": c["sb"], "case": case, "observed": res, "why": v})
                violations.append({"what": "%s [sb=%s len=%d natt=%d fh=%s]" % (v, sb, case["len"], case["natt"], case["fh"]),
                                   "replay": rp, "key": "frag:" + v.split(":")[0]})
        if len(samples) < 6 and cases:
            samples.append({"config": c["name"], "case": cases[len(cases) // 2], "observed": by.get(cases[len(cases) // 2]["id"])})
        # B3: validate the recorded system-call trace of (a prefix of) the run
        if os.path.exists(raw):
            ntrace = min(len(results), max_trace_cases)
            keep = {x["id"] for x in results[:ntrace]}
            compact = os.path.join(wd, c["name"] + ".compact.ndjson")
            evs, index = convert_trace(raw, compact, [x for x in results if x["id"] in keep], arith["Hdr"])
            # cut at the first case beyond the prefix
            cut = len(evs)
            seen = 0
            for i, e in enumerate(evs):
                if e["e"] == "Case":
                    seen += 1
                    if seen > ntrace:
                        cut = i
                        break
            if cut < len(evs):
                with open(compact, "w") as f:
                    for e in evs[:cut]:
                        f.write(json.dumps(e) + "\n")
            tr, reject = validate_trace(wd, c["name"], compact, arith["Hdr"])
            require_ok(tr, "FragTrace " + c["name"])
            if tr.violation or reject:
                rp = vlib_replay(pid, c["name"] + "-trace", {"property": pid, "kind": "trace", "config": c["name"],
                                                             "violation": tr.violation, "reject": reject,
                                                             "tlc": tr.trace[:6000] if tr.trace else ""})
                violations.append({"what": "recorded execution is not a behaviour of Frag.tla: %s %s" % (
                    tr.violation or "", reject or ""), "replay": rp, "key": "trace:" + (tr.violation or "reject")})
            else:
                traces_ok += ntrace
                states += tr.distinct
                transitions += tr.generated
            os.remove(raw)
        log("  %s: replayed %d cases (%.1fs total), %d violations so far" % (c["name"], len(cases), time.time() - t0, len(violations)))
    cov = {
        "states": states, "transitions": transitions,
        "traces_validated_against_impl": traces_ok,
        "behaviours_replayed": replayed,
        "unmatched_model_predictions": unmatched,
        "evaluations": replayed,
        "distinct_nontrivial": len(distinct),
        "rule": "one case per terminal behaviour of Frag.tla (length x attachment count x mix x ENOBUFS pattern over the "
                "attempts actually made); distinct by (fragmented?, attachments, fault pattern, outcome)",
        "samples": samples,
        "configs": [c["name"] for c in configs],
        "notes": notes,
        "exhaustive": True,
    }
    return {"level": "model_checking", "coverage": cov, "violations": violations}


def vlib_replay(pid, name, obj):
    from vlib import write_replay
    return write_replay(pid, name, obj)


def replay_one(rp):
    """./check replay <file> for a frag-kind violation: re-run exactly that case."""
    pid = rp["property"]
    if rp.get("kind") == "frag":
        build_harness("os")
        wd = workdir("replay")
        results, _ = replay(wd, "replay", rp["sb"], [rp["case"]], trace=False)
        res = results[0] if results else None
        v, _ = judge(rp["case"], rp["case"].get("model"), res or {})
        print(json.dumps({"case": rp["case"], "observed": res}, indent=1))
        if v or res is None:
            print("VIOLATION property=%s replay=%s" % (pid, "(this file)"))
            return 1
        print("case passes now")
        return 0
    if rp.get("kind") == "values":
        build_harness(rp["variant"])
        env = {"IPC_VERIF_SENDBUF": rp["sb"]} if rp.get("sb") else {}
        p = run_harness(rp["variant"], ["values"], env=env, stdin=json.dumps(rp["job"]) + "\n", timeout=1500)
        print(p.stdout[-2000:], p.stderr[-2000:])
        bad = '"failures":[]' not in p.stdout
        if bad:
            print("VIOLATION property=%s replay=%s" % (pid, "(this file)"))
        return 1 if bad else 0
    print(json.dumps(rp, indent=1)[:4000])
    print("model/trace level finding: re-run ./check %s" % pid)
    return 0


def apalache_inductive(wd, arith, mutate=False):
    """Unbounded-length argument for the fragment loop: Apalache discharges Init => Ind and Ind /\\ Next => Ind' of
    spec/apalache/FragInd.tla (any len, 4096 <= Sys <= 2^24). Returns (ok, note). The module transcribes the arithmetic
    with Reserved/Hdr/Align = 32/8/8; if the running code reports other constants the step is skipped (note says so)."""
    import shutil
    import subprocess
    if arith != {"Reserved": 32, "Hdr": 8, "Align": 8}:
        return True, "skipped: the code's fragment arithmetic (%s) is not the one FragInd.tla transcribes" % arith
    d = os.path.join(wd, "apalache")
    shutil.rmtree(d, ignore_errors=True)
    os.makedirs(d)
    src = open(os.path.join(SPEC, "apalache", "FragInd.tla")).read()
    if mutate:
        src = src.replace("ELSE End - pos <= Min(FragSize(Sys), len - pos)))", "ELSE End - pos <= Min(FirstFragSize(Sys), len - pos)))")
    with open(os.path.join(d, "FragInd.tla"), "w") as f:
        f.write(src)
    notes = []
    for args in (["--init=Init", "--inv=Ind", "--length=0"], ["--init=IndInit", "--inv=Ind", "--length=1"]):
        try:
            p = subprocess.run(["apalache-mc", "check", "--cinit=ConstInit"] + args + ["FragInd.tla"], cwd=d,
                               stdout=subprocess.PIPE, stderr=subprocess.STDOUT, text=True, timeout=900)
        except subprocess.TimeoutExpired:
            raise ToolError("apalache timed out")
        if "EXITCODE: OK" in p.stdout:
            notes.append(" ".join(args) + ": discharged")
        elif "The outcome is: Error" in p.stdout:
            return False, " ".join(args) + ": counterexample to induction found"
        else:
            raise ToolError("apalache failed: " + p.stdout[-1500:])
    shutil.rmtree(d, ignore_errors=True)
    return True, "; ".join(notes)
