"""./check selftest - non-vacuity of the models and of the bindings.

1. Every specification has deliberately wrong design variants; TLC must report a violation for each
   (otherwise the invariants would be vacuous for the bounds used).
2. Recorded traces are accepted verbatim and rejected after one field is corrupted or one event is
   deleted (otherwise the trace specifications would not bind anything).
3. A replayed behaviour whose expected result is falsified must be flagged by the harness comparison.
"""
import json
import os
import random

import chancheck
import fragcheck
import rescheck
import routercheck
import setcheck
import sidecheck
import transcheck
from vlib import SPEC, build_harness, log, run_harness, run_tlc, workdir


def expect(results, name, cond, detail=""):
    results.append((name, bool(cond), detail))
    log("  [%s] %s %s" % ("ok" if cond else "FAIL", name, detail))


def run(tier):
    wd = workdir("selftest")
    build_harness("os")
    res = []
    # ---- 1. model mutants
    arith = {"Reserved": 32, "Hdr": 8, "Align": 8}
    lens = fragcheck.boundary_lens(4056, 4064, ks=(1, 2, 3), radius=2)
    for variant, inv in (("nocap", "OverfullRefused"), ("recvwin", "RetryAcceptable"), ("firstfull", None)):
        r = fragcheck.frag_model(wd, "frag-" + variant, 4096, arith, 64, lens, [0, 1, 64, 65], 2, variant=variant, export=False,
                                 liveness=False)
        expect(res, "Frag variant %s violates an invariant" % variant, r.violation is not None, str(r.violation))
    r = fragcheck.frag_model(wd, "frag-code", 4096, arith, 64, lens, [0, 1, 64, 65], 2, export=False)
    expect(res, "Frag as implemented holds", r.ok and not r.violation, str(r.violation or r.error))

    ok, note = fragcheck.apalache_inductive(wd, arith)
    expect(res, "Apalache discharges the inductive invariant of FragInd.tla", ok, note)
    ok, note = fragcheck.apalache_inductive(wd, arith, mutate=True)
    expect(res, "Apalache rejects FragInd.tla with the receiver's window made too small", not ok, note)

    msgs, plan = [[2, 1], [3]], ["try", "recv", "timeout", "recv", "recv"]
    for kw, what in ((dict(follow_on_shared=True), "FollowOnShared"), (dict(restore=False), "RestoreBlocking=FALSE"),
                     (dict(crashers=(2,), incomplete="disc"), "IncompleteIs=disc")):
        r = transcheck.model(wd, "t-" + what.split("=")[0], msgs, plan, liveness=False, **kw)
        expect(res, "Transport variant %s violates an invariant" % what, r.violation is not None, str(r.violation))
    r = transcheck.model(wd, "t-code", msgs, plan, crashers=(2,), liveness=False)
    expect(res, "Transport as implemented holds", r.ok and not r.violation, str(r.violation or r.error))

    A = lambda m: {"op": "add", "m": m}
    S = {"op": "select", "m": 0}
    for kw, what in ((dict(drain_one=True), "DrainOne"), (dict(level_blind=True), "LevelBlindAdd")):
        r = setcheck.model(wd, "r-" + what, [[1, 2], [2], [1]], [A(1), A(2), S, A(3)], liveness=False, **kw)
        expect(res, "ReceiverSet variant %s violates ETInv" % what, r.violation is not None, str(r.violation))

    AR = lambda r_: {"op": "add", "r": r_}
    SH = {"op": "shutdown", "r": 0}
    DP = {"op": "dropproxy", "r": 0}
    r = routercheck.model(wd, "q-break", [2, 1, 1], [[AR(1), SH, AR(3)], [AR(2), SH]], break_inner=True, liveness=False)
    expect(res, "Router variant BreakInnerOnly violates StoppedWhenReturned/NoCallAfterReturn", r.violation is not None, str(r.violation))
    r = routercheck.model(wd, "q-panic", [2, 1, 1], [[AR(1), AR(2), DP], []], panic_wake=True, liveness=False)
    expect(res, "Router variant PanicOnWakeClosed violates NoPanic", r.violation is not None, str(r.violation))

    r = sidecheck.gen(wd, "s-early", "ser", maxdepth=1, maxlen=2, servariant="early_return", export=False)
    expect(res, "SideTables variant early_return violates NothingRetained", r.violation is not None, str(r.violation))
    r = sidecheck.gen(wd, "s-unchecked", "de", maxatt=2, maxrefs=2, devariant="unchecked", export=False)
    expect(res, "SideTables variant unchecked violates NoPanic", r.violation is not None, str(r.violation))

    for v in ("clear", "noinstall"):
        r = sidecheck.gen_nested_recv(wd, "nr-" + v, variant=v, export=False)
        expect(res, "NestedRecv variant %s violates SelfContained" % v, r.violation is not None, str(r.violation))

    import prop_c20
    mod = "A_wf"
    with open(os.path.join(wd, mod + ".tla"), "w") as f:
        f.write("---- MODULE %s ----\nEXTENDS AsyncRouter\nMCN == <<2, 1>>\n====\n" % mod)
    cfg = os.path.join(wd, mod + ".cfg")
    with open(cfg, "w") as f:
        f.write("SPECIFICATION FairSpec\nCONSTANTS\n  Streams = {1, 2}\n  NMsgs <- MCN\n  DrainOnlyOnWake = FALSE\n  WakeFirst = TRUE\n"
                "INVARIANTS InOrderOnce EndAfterLast WakesPoller\nPROPERTIES Completes\n")
    r = run_tlc(os.path.join(wd, mod + ".tla"), cfg, cwd=wd)
    expect(res, "AsyncRouter variant WakeFirst violates Completes", r.violation is not None, str(r.violation))

    for variant in ("close_each_drop", "no_cascade"):
        r = chancheck.unix_handles(wd, "st-" + variant, chans=2, procs=2, maxops=5, variant=variant)
        expect(res, "UnixHandles variant %s violates an agreement invariant" % variant, r.violation is not None, str(r.violation))

    # ---- 2. binding: corrupt recorded traces
    rnd = random.Random(7)
    cases = [{"id": 1, "len": 9000, "natt": 2, "mix": 2, "fh": [False, True], "model": {"sres": "ok", "rres": "ok"}},
             {"id": 2, "len": 100, "natt": 0, "mix": 2, "fh": [], "model": {"sres": "ok", "rres": "ok"}}]
    results, raw = fragcheck.replay(wd, "bind", 4096, cases)
    compact = os.path.join(wd, "bind.compact.ndjson")
    evs, _ = fragcheck.convert_trace(raw, compact, results, 8)
    tr, rej = fragcheck.validate_trace(wd, "bind", compact, 8)
    expect(res, "FragTrace accepts a verbatim trace", not tr.violation and not rej, str(tr.violation or rej))
    for what, mut in (("a follow-up packet size changed", lambda e: [dict(x, n=x["n"] + 8) if x["e"] == "SendFollow" and x["ok"] else x for x in e]),
                      ("a receive deleted", lambda e: [x for i, x in enumerate(e) if not (x["e"] == "RecvFollow" and i == max(j for j, y in enumerate(e) if y["e"] == "RecvFollow"))]),
                      ("descriptor count changed", lambda e: [dict(x, nfds=x["nfds"] + 1) if x["e"] == "SendFirst" and x["nfds"] > 0 else x for x in e])):
        bad = os.path.join(wd, "bind.bad.ndjson")
        with open(bad, "w") as f:
            for x in mut(evs):
                f.write(json.dumps(x) + "\n")
        tr, rej = fragcheck.validate_trace(wd, "bindbad", bad, 8)
        expect(res, "FragTrace rejects a trace with %s" % what, bool(tr.violation or rej))
    # ledger
    rc = os.path.join(wd, "bind.res.ndjson")
    le = rescheck.convert([raw], rc)
    lr, why = rescheck.validate(wd, "bindres", rc)
    expect(res, "ResourcesTrace accepts a verbatim trace", not lr.violation, str(why))
    for what, mut in (("a close duplicated", lambda e: sum(([x, x] if x["ev"] == "close.call" and i == [j for j, y in enumerate(e) if y["ev"] == "close.call"][3] else [x] for i, x in enumerate(e)), [])),
                      ("a descriptor without close-on-exec", lambda e: [dict(x, cloexec=0) if x["ev"] == "fd.new" and i == [j for j, y in enumerate(e) if y["ev"] == "fd.new"][2] else x for i, x in enumerate(e)]),
                      ("a free duplicated", lambda e: sum(([x, x] if x["ev"] == "free" and x["addr"] != 0 and i == [j for j, y in enumerate(e) if y["ev"] == "free" and y["addr"] != 0][0] else [x] for i, x in enumerate(e)), []))):
        bad = os.path.join(wd, "bind.resbad.ndjson")
        with open(bad, "w") as f:
            for x in mut(le):
                f.write(json.dumps(x) + "\n")
        lr, why = rescheck.validate(wd, "bindresbad", bad)
        expect(res, "ResourcesTrace rejects a trace with %s" % what, bool(lr.violation), str(why))
    os.remove(raw)
    # router trace
    sc = {"id": 0, "seed": 11, "msgs": [2, 3, 1], "kinds": ["cb", "cb", "xbeam"],
          "progs": [[{"op": "add", "r": 1}, {"op": "add", "r": 3}, {"op": "shutdown"}], [{"op": "add", "r": 2}]],
          "dropproxy": False, "presend": [1, 0, 0], "stop": "shutdown"}
    raw = os.path.join(wd, "rt.ndjson")
    run_harness("os", ["router"], stdin=json.dumps(sc) + "\n", env={"IPC_VERIF_TRACE": raw, "RUST_BACKTRACE": "0"})
    compact = os.path.join(wd, "rt.compact.ndjson")
    evs, _ = routercheck.convert(raw, compact)
    tr, rej = routercheck.validate(wd, "rt", compact)
    expect(res, "RouterTrace accepts a verbatim trace", not tr.violation and not rej, str(tr.violation or rej))
    cb = [i for i, e in enumerate(evs) if e["ev"] == "router.handler.enter"]
    leave = [i for i, e in enumerate(evs) if e["ev"] == "router.shutdown.leave"]
    if cb and leave:
        moved = [e for i, e in enumerate(evs) if i != cb[-1]]
        at = [i for i, e in enumerate(moved) if e["ev"] == "router.shutdown.leave"][0]
        moved = moved[:at + 1] + [evs[cb[-1]]] + moved[at + 1:]
        bad = os.path.join(wd, "rt.bad.ndjson")
        with open(bad, "w") as f:
            for x in moved:
                f.write(json.dumps(x) + "\n")
        tr, rej = routercheck.validate(wd, "rtbad", bad)
        expect(res, "RouterTrace rejects a handler call moved after shutdown's return", bool(tr.violation or rej))
    gd = [i for i, e in enumerate(evs) if e["ev"] == "h.guarddrop"]
    if gd:
        bad = os.path.join(wd, "rt.bad2.ndjson")
        with open(bad, "w") as f:
            for i, x in enumerate(evs):
                if i != gd[0]:
                    f.write(json.dumps(x) + "\n")
        tr, rej = routercheck.validate(wd, "rtbad2", bad)
        expect(res, "RouterTrace rejects a trace from which one callback drop was removed", bool(tr.violation or rej))
    os.remove(raw)
    # fifo trace
    import fifocheck
    r = fifocheck.model(wd, "lifo", [2, 1], discipline="lifo")
    expect(res, "Fifo variant lifo violates RealTimeFIFO", r.violation is not None, str(r.violation))
    sc = {"id": 0, "seed": 5, "senders": [{"kind": "thread", "lens": [100, 9000, 100]}, {"kind": "proc", "lens": [100, 100]}],
          "receiver": "eager"}
    raw = os.path.join(wd, "ff.ndjson")
    run_harness("os", ["fifo"], stdin=json.dumps(sc) + "\n", env={"IPC_VERIF_TRACE": raw, "IPC_VERIF_SENDBUF": 4096, "RUST_BACKTRACE": "0"})
    compact = os.path.join(wd, "ff.compact.ndjson")
    evs = fifocheck.convert(raw, compact)
    tr, rej = fifocheck.validate(wd, "ff", compact)
    expect(res, "FifoTrace accepts a verbatim trace", not tr.violation and not rej, str(tr.violation or rej))
    rc = [i for i, e in enumerate(evs) if e["ev"] == "f.recv" and e["s"] == 1]

    def swapped(e):
        e = list(e)
        e[rc[0]], e[rc[1]] = e[rc[1]], e[rc[0]]
        return e
    for what, mut in (("two deliveries of one sender swapped", swapped),
                      ("a delivery duplicated", lambda e: e[:rc[0] + 1] + [e[rc[0]]] + e[rc[0] + 1:]),
                      ("a delivery removed before the disconnection", lambda e: [x for i, x in enumerate(e) if i != rc[-1]])):
        bad = os.path.join(wd, "ff.bad.ndjson")
        with open(bad, "w") as f:
            for x in mut(evs):
                f.write(json.dumps(x) + "\n")
        tr, rej = fifocheck.validate(wd, "ffbad", bad)
        expect(res, "FifoTrace rejects a trace with %s" % what, bool(tr.violation or rej))
    # the same run at system-call level (ProtoTrace.tla)
    import protocheck
    pc = os.path.join(wd, "ff.proto.ndjson")
    pevs, _ = protocheck.convert(raw, pc)
    tr, rej = protocheck.validate(wd, "ffp", pc)
    expect(res, "ProtoTrace accepts a verbatim trace", not tr.violation and not rej, str(tr.violation or rej))
    frag = [i for i, e in enumerate(pevs) if e["ev"] == "s.frag"]
    pair = [i for i, e in enumerate(pevs) if e["ev"] == "s.pair" and any(
        x["ev"] == "s.frag" and x["t"] == e["t"] and x["ino"] in (e["i0"], e["i1"]) for x in pevs[i:])]
    rxclose = [i for i, e in enumerate(pevs) if e["ev"] == "s.close" and i < frag[0] and e["t"] == pevs[frag[0]]["t"]]

    def moved(e):
        e = list(e)
        x = e.pop(rxclose[-1])
        e.insert(frag[0], x)      # now after the first follow-up
        return e
    for what, mut in (("a follow-up sent on another socket", lambda e: [dict(x, ino=x["ino"] + 1) if i == frag[0] else x for i, x in enumerate(e)]),
                      ("a fragmented message without a socket pair of its own", lambda e: [x for i, x in enumerate(e) if i != pair[0]]),
                      ("the sender's copy of the dedicated receiving end closed only after a follow-up", moved)):
        bad = os.path.join(wd, "ff.pbad.ndjson")
        with open(bad, "w") as f:
            for x in mut(pevs):
                f.write(json.dumps(x) + "\n")
        tr, rej = protocheck.validate(wd, "ffpbad", bad)
        expect(res, "ProtoTrace rejects a trace with %s" % what, bool(tr.violation or rej))
    os.remove(raw)
    # ---- 3. replay comparison: falsify the model's expectation
    g = chancheck.gen(wd, "c", maxops=2)
    behs = chancheck.behaviours(g, 1)
    victim = None
    for b in behs:
        for o in b["ops"]:
            if o["op"] in ("recv", "drain") and o.get("res") == "disc":
                victim = json.loads(json.dumps(b))
                for oo in victim["ops"]:
                    if oo["op"] in ("recv", "drain") and oo.get("res") == "disc":
                        oo["res"] = "empty"
                        break
                break
        if victim:
            break
    if victim:
        v = chancheck.replay(wd, "c", "os", "thread", [victim])[0]
        expect(res, "chan replay flags a falsified expectation (disc -> empty)", v is not None and not v.get("ok"), (v or {}).get("why", ""))
    failed = [r for r in res if not r[1]]
    print("selftest: %d checks, %d failed" % (len(res), len(failed)))
    return 1 if failed else 0
