"""Channels.tla based checks (C03, C04, C05, C09, C19): TLC generates behaviours of the ideal API
model (exhaustively for small bounds, by random simulation for larger ones); each is replayed through
the real crate by the harness `chan` role and every result compared with the model's (binding B1)."""
import json
import os
import time

from vlib import (OUT, SPEC, ToolError, build_harness, case_hash, log, run_harness, run_tlc,
                  require_ok, seed, workdir, write_replay)

CFG = """SPECIFICATION MCSpec
CONSTANTS
  Agents = {{{agents}}}
  MaxCh = {maxch}
  MaxRegions = {maxreg}
  MaxSlots = {maxslots}
  MaxSets = {maxsets}
  MaxOps = {maxops}
  MinOps = {minops}
  MaxQueue = {maxqueue}
  Pick = "{pick}"
  RegionLens = {{{regionlens}}}
  Kinds = {{{kinds}}}
  FailSends = {failsends}
  DiscardSets = {discard}
INVARIANTS TypeOK OneReceiver DeadQueuesEmpty DeliveredOnce {export}
{view}
"""


def gen(wd, name, agents=(0,), maxch=2, maxreg=1, maxslots=1, maxsets=0, maxops=4, maxqueue=2, regionlens=(1,),
        kinds=("typed",), failsends=False, discard=False, minops=0, simulate=None, depth=None, export=True, workers=8, tlcseed=None, view=False,
        timeout=3000, story=None):
    """story: a sequence of operation names ("*" = any) the first operations of every generated behaviour must follow
    (set members are added in ascending handle order): a directed exhaustive exploration of what may happen AFTER a
    prescribed prelude, e.g. a set with four members, one closure, any operation, another look at the set."""
    cfg = os.path.join(wd, name + ".cfg")
    spec = os.path.join(SPEC, "MCChannels.tla")
    if story:
        mod = "S_" + name.replace("-", "_")
        spec = os.path.join(wd, mod + ".tla")
        with open(spec, "w") as f:
            f.write("---- MODULE %s ----\nEXTENDS MCChannels\nStory == <<%s>>\n"
                    "StoryOK == /\\ \\A i \\in 1..Len(log) : i <= Len(Story) => (Story[i] = \"*\" \\/ log[i].op = Story[i])\n"
                    "           /\\ \\A i, j \\in 1..Len(log) : (i < j /\\ log[i].op = \"setadd\" /\\ log[j].op = \"setadd\") => log[i].h < log[j].h\n"
                    "====\n" % (mod, ", ".join('"%s"' % x for x in story)))
    with open(cfg, "w") as f:
        f.write(CFG.format(agents=", ".join(map(str, agents)), maxch=maxch, maxreg=maxreg, maxslots=maxslots, maxsets=maxsets,
                           maxops=maxops, minops=minops, maxqueue=maxqueue, pick="random" if simulate else "all", regionlens=", ".join(map(str, regionlens)),
                           kinds=", ".join('"%s"' % k for k in kinds), failsends="TRUE" if failsends else "FALSE", discard="TRUE" if discard else "FALSE", export="Export" if export else "",
                           view="VIEW View" if view else "") + ("CONSTRAINT StoryOK\n" if story else ""))
    r = run_tlc(spec, cfg, workers=workers, simulate=simulate, depth=depth, tlcseed=tlcseed, timeout=timeout,
                **({"cwd": wd} if story else {}))
    return r


def behaviours(r, nagents):
    out = []
    seen = set()
    for line in r.lines:
        if line.startswith("@@"):
            h = case_hash(line)
            if h in seen:
                continue
            seen.add(h)
            o = json.loads(line[2:])
            wakes = o.get("wakes") or []
            out.append({"ops": o["ops"], "wakes": [sorted(w) for w in wakes], "agents": nagents})
    return out


def replay(wd, name, variant, mode, behs, sb=4096, timeout=3000):
    """Run the harness chan role; returns verdict list (aligned with behs; None where it died)."""
    for i, b in enumerate(behs):
        b["id"] = i
    stdin = "\n".join(json.dumps(b) for b in behs) + "\n"
    env = {}
    if sb and variant != "inprocess":
        env["IPC_VERIF_SENDBUF"] = sb
    verdicts = [None] * len(behs)
    died_at = None
    pos = 0
    deaths = 0
    # the harness may die (panic=abort in a destructor, hang watchdog): restart after the culprit
    while pos < len(behs):
        chunk = behs[pos:]
        stdin = "\n".join(json.dumps(b) for b in chunk) + "\n"
        p = run_harness(variant, ["chan", mode], env=env, stdin=stdin, timeout=timeout)
        last_begin = None
        for line in p.stdout.splitlines():
            if not line.startswith("{"):
                continue
            o = json.loads(line)
            if "begin" in o:
                last_begin = o["begin"]
            elif "id" in o:
                verdicts[o["id"]] = o
            elif o.get("hang"):
                pass
        done = [b["id"] for b in chunk if verdicts[b["id"]] is not None]
        if len(done) == len(chunk):
            break
        # died inside behaviour last_begin
        if last_begin is None:
            raise ToolError("harness chan died before starting: rc=%s\n%s" % (p.returncode, p.stderr[-3000:]))
        hang = "HANG" in p.stderr
        verdicts[last_begin] = {"id": last_begin, "ok": False, "died": True,
                                "why": ("hang (no progress for 20 s)" if hang else
                                        "process died: rc=%s %s" % (p.returncode, p.stderr[-1500:]))}
        pos = last_begin + 1
        deaths += 1
        if deaths >= 4:
            # enough evidence; do not spend 20 s per further hang
            for b in behs[pos:]:
                if verdicts[b["id"]] is None:
                    verdicts[b["id"]] = {"id": b["id"], "ok": True, "skipped": True}
            break
    return verdicts


def classify(b):
    """Features used to count distinct non-trivial behaviours."""
    ops = b["ops"]
    feats = []
    for o in ops:
        k = o["op"]
        if k in ("send", "probe"):
            feats.append((k, o["res"], tuple(s["k"] for s in o.get("slots", [])), o.get("big")))
        elif k == "setdrain":
            feats.append((k, o["n"], tuple((len(e["tags"]), e["closed"]) for e in o["evs"])))
        elif k in ("recv", "drain"):
            feats.append((k, o.get("mode"), o["res"], tuple(s["k"] for s in o.get("slots", []))))
        else:
            feats.append((k,))
    return feats


def campaign(pid, plans, nontrivial, what):
    """plans: [{name, variant, mode, gen kwargs}] ; nontrivial(b) -> bool selects behaviours that
    exercise the property; returns result dict."""
    wd = workdir(pid.lower())
    violations = []
    states = transitions = 0
    replayed = 0
    distinct = set()
    samples = []
    built = set()
    for pl in plans:
        variant = pl.get("variant", "os")
        if variant not in built:
            build_harness(variant)
            built.add(variant)
        t0 = time.time()
        g = dict(pl["gen"])
        r = gen(wd, pl["name"], **g)
        require_ok(r, "MCChannels " + pl["name"])
        if r.violation:
            rp = write_replay(pid, pl["name"] + "-model", {"property": pid, "kind": "model", "invariant": r.violation,
                                                           "trace": r.trace[:6000]})
            violations.append({"what": "Channels.tla: %s violated" % r.violation, "replay": rp, "key": "model"})
            continue
        states += r.distinct
        transitions += r.generated
        behs = behaviours(r, len(g.get("agents", (0,))))
        if pl.get("filter"):
            behs = [b for b in behs if pl["filter"](b)]
        if pl.get("limit") and len(behs) > pl["limit"]:
            import random
            rnd = random.Random(seed())
            behs = rnd.sample(behs, pl["limit"])
        if pl.get("bystander"):
            for b in behs:
                b["bystander"] = True
        verdicts = replay(wd, pl["name"], variant, pl.get("mode", "thread"), behs, sb=pl.get("sb", 4096))
        nbad = 0
        for b, v in zip(behs, verdicts):
            replayed += 1
            if nontrivial(b):
                distinct.add(case_hash(classify(b)))
            if v is None or not v.get("ok"):
                nbad += 1
                if nbad <= 5:
                    rp = write_replay(pid, "%s-%d" % (pl["name"], b["id"]),
                                      {"property": pid, "kind": "chan", "variant": variant, "mode": pl.get("mode", "thread"),
                                       "sb": pl.get("sb", 4096), "behaviour": b, "verdict": v})
                    violations.append({"what": "%s [%s/%s]: %s at step %s of %s" % (
                        what, variant, pl.get("mode", "thread"), (v or {}).get("why"), (v or {}).get("step"),
                        json.dumps((v or {}).get("op"))[:300]), "replay": rp,
                        "key": "chan:" + str((v or {}).get("why"))[:60]})
        if behs and len(samples) < 5:
            samples.append({"plan": pl["name"], "behaviour": behs[len(behs) // 2]["ops"][:12]})
        log("  %s: TLC %d states (%.1fs), %d behaviours replayed on %s/%s, %d bad (%.1fs)" % (
            pl["name"], r.distinct, r.wall, len(behs), variant, pl.get("mode", "thread"), nbad, time.time() - t0))
    cov = {"states": states, "transitions": transitions, "traces_validated_against_impl": replayed,
           "evaluations": replayed, "distinct_nontrivial": len(distinct),
           "rule": "behaviours of Channels.tla (exhaustive BFS for the small bounds, TLC -simulate walks for the "
                   "larger ones, each ending with the probe/drain epilogue); non-trivial = exercises " + what +
                   "; distinct by the sequence of (operation, result, slot kinds)",
           "samples": samples, "plans": [p["name"] for p in plans]}
    return {"level": "model_checking", "coverage": cov, "violations": violations}


def unix_handles(wd, name, chans=2, procs=2, maxops=6, maxclones=2, variant="code", timeout=3000, workers=8):
    """TLC on UnixHandles.tla: the descriptor-level account of 'a sender handle exists' / 'the receiving end exists'
    (clones share one descriptor, references in flight, cascading destruction, process exit) agrees with the handle
    view Channels.tla uses."""
    cfg = os.path.join(wd, "uh-%s.cfg" % name)
    with open(cfg, "w") as f:
        f.write("SPECIFICATION Spec\nCONSTANTS\n  Chans = {%s}\n  Procs = {%s}\n  MaxOps = %d\n  MaxClones = %d\n"
                "  Variant = \"%s\"\nINVARIANTS DisconnectedIffNoSender BrokenPipeIffNoReceiver DescriptorsMatchHandles "
                "DeadIsGone\n" % (", ".join(map(str, range(1, chans + 1))), ", ".join(map(str, range(1, procs + 1))),
                                  maxops, maxclones, variant))
    return run_tlc(os.path.join(SPEC, "UnixHandles.tla"), cfg, workers=workers, timeout=timeout)


def add_unix_handles(pid, res, wd, configs):
    for name, kw in configs:
        r = unix_handles(wd, name, **kw)
        require_ok(r, "UnixHandles " + name)
        if r.violation:
            rp = write_replay(pid, "uh-" + name, {"property": pid, "kind": "model", "invariant": r.violation,
                                                  "trace": r.trace[:6000]})
            res["violations"].append({"what": "UnixHandles.tla: %s violated" % r.violation, "replay": rp, "key": "model-uh"})
        else:
            res["coverage"]["states"] += r.distinct
            res["coverage"]["transitions"] += r.generated
            res["coverage"].setdefault("unix_handles", []).append({"config": kw, "distinct_states": r.distinct})
            log("  UnixHandles %s: %d distinct states, descriptor view agrees with handle view (%.1fs)" % (
                name, r.distinct, r.wall))


def replay_one(rp):
    pid = rp["property"]
    if rp.get("kind") != "chan":
        print(json.dumps(rp, indent=1)[:4000])
        return 0
    build_harness(rp["variant"])
    wd = workdir("replay")
    v = replay(wd, "replay", rp["variant"], rp["mode"], [rp["behaviour"]], sb=rp.get("sb", 4096))[0]
    print(json.dumps(v, indent=1))
    if v is None or not v.get("ok"):
        print("VIOLATION property=%s replay=(this file)" % pid)
        return 1
    print("behaviour conforms now")
    return 0
