"""C07 - router: each routed message reaches its handler once, in order; then it is freed."""
import routercheck

A = lambda r: {"op": "add", "r": r}


def run(tier):
    models = [("add-2threads", [2, 1, 1], [[A(1), A(3)], [A(2)]], "AllDispatched"),
              ("add-late", [2, 2], [[A(1)], [A(2)]], "AllDispatched")]
    res = routercheck.campaign("C07", tier, ["none"], models)
    res["assumptions"] = ["free-running scenarios with seeded jitter (not forced interleavings); every recorded step is "
                          "checked by TLC against RouterTrace.tla with interval semantics for sends and drops",
                          "the receiver set under the router is covered by C06"]
    return res


def replay(rp):
    print(rp.get("why") or rp.get("reject"))
    return 0
