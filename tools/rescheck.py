"""Resources.tla ledger: conversion of raw hook traces and TLC validation (used by C11 and C18)."""
import json
import os

from vlib import SPEC, run_tlc

KEEP = {"fd.new", "close.call", "close.ret", "mmap.ret", "munmap.call", "malloc", "free", "slice", "quiesce", "exit"}


def convert(raw_paths, out_path, skip_pids=(), fork_inheritance=False):
    evs = []
    for rp in raw_paths:
        with open(rp) as f:
            for line in f:
                try:
                    evs.append(json.loads(line))
                except ValueError:
                    pass
    evs.sort(key=lambda e: e["g"])
    amap = {0: 0}
    out = []

    def A(x):
        if x not in amap:
            amap[x] = len(amap)
        return amap[x]
    owned = {}   # pid -> {fd: ino}   (only used to recognise descriptors inherited through fork())
    for e in evs:
        ev = e["ev"]
        if ev not in KEEP or e["p"] in skip_pids:
            continue
        if fork_inheritance:
            p = e["p"]
            if ev == "fd.new":
                owned.setdefault(p, {})[e["fd"]] = e.get("ino")
            elif ev == "close.call":
                mine = owned.setdefault(p, {})
                if e["fd"] not in mine and any(o.get(e["fd"]) == e.get("ino") and e.get("ino", -1) > 0
                                               for q, o in owned.items() if q != p):
                    # a fork()ed child closing a descriptor it was born with: it owns it like its parent does
                    out.append({"ev": "fd.new", "p": p, "fd": e["fd"], "cloexec": 1, "how": 9, "res": 0, "addr": 0,
                                "len": 0, "ok": 1, "g": e["g"]})
                mine.pop(e["fd"], None)
        o = {"ev": ev, "p": e.get("pidx", e["p"]), "fd": e.get("fd", 0), "cloexec": e.get("cloexec", 1),
             "how": e.get("how", 0), "res": e.get("res", 0), "addr": A(e.get("addr", 0)), "len": e.get("len", 0),
             "ok": e.get("ok", 1), "g": e["g"]}
        if ev == "mmap.ret" and not e.get("ok", 1):
            o["addr"] = 0
        out.append(o)
    with open(out_path, "w") as f:
        for o in out:
            f.write(json.dumps(o) + "\n")
    return out


def validate(wd, name, compact_path):
    cfg = os.path.join(wd, name + ".res.cfg")
    with open(cfg, "w") as f:
        f.write("SPECIFICATION TraceSpec\nINVARIANTS LedgerClean\nPOSTCONDITION TraceAccepted\nCHECK_DEADLOCK FALSE\n")
    r = run_tlc(os.path.join(SPEC, "ResourcesTrace.tla"), cfg, workers=1, env={"TRACE": compact_path},
                jvm=["-Xmx6g", "-Xss1g", "-Dtlc2.tool.queue.IStateQueue=StateDeque"], timeout=2400)
    why = None
    if r.violation:
        # the state shows `bad` and `l`
        bad = [x for x in r.raw.splitlines() if x.strip().startswith("/\\ bad =")]
        ll = [x for x in r.raw.splitlines() if x.strip().startswith("/\\ l =")]
        why = (bad[-1].split("=", 1)[1].strip() if bad else r.violation)
        if ll:
            why += " (trace line %s)" % ll[-1].split("=", 1)[1].strip()
    return r, why
