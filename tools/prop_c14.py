"""C14 - a failed or nested send leaves no trace in later or enclosing messages."""
import time

import sidecheck
from vlib import build_harness, log, require_ok, seed, workdir, write_replay


def run(tier):
    wd = workdir("c14")
    build_harness("os")
    violations, distinct, samples = [], set(), []
    states = transitions = replayed = 0
    if tier == "quick":
        plans = [("d1-l2", dict(maxdepth=1, maxlen=2)),
                 ("d3-sim", dict(maxdepth=3, maxlen=3, simulate=60, depth=60, tlcseed=seed()))]
    else:
        plans = [("d1-l2", dict(maxdepth=1, maxlen=2)),
                 ("d2-l2-sim", dict(maxdepth=2, maxlen=2, simulate=3000, depth=60, tlcseed=seed())),
                 ("d3-l3-sim", dict(maxdepth=3, maxlen=3, simulate=4000, depth=80, tlcseed=seed() + 1))]
    for name, kw in plans:
        t0 = time.time()
        r = sidecheck.gen(wd, name, "ser", **kw)
        require_ok(r, "MCSideTables " + name)
        if r.violation:
            rp = write_replay("C14", name + "-model", {"property": "C14", "kind": "model", "invariant": r.violation,
                                                       "trace": r.trace[:5000]})
            violations.append({"what": "SideTables.tla: %s violated" % r.violation, "replay": rp, "key": "model"})
            continue
        states += r.distinct
        transitions += r.generated
        cases = sidecheck.cases_of(r)
        n, bad = sidecheck.run_cases("C14", name, cases, violations, distinct)
        replayed += n
        if cases:
            samples.append({"plan": name, "case": cases[len(cases) // 2]})
        log("  %s: TLC %d states (%.1fs), %d scripts replayed, %d bad (%.1fs)" % (
            name, r.distinct, r.wall, n, bad, time.time() - t0))
    # receives inside Deserialize impls (NestedRecv.tla)
    nplans = [("nrecv-d1-l2", dict(maxdepth=1, maxlen=2)),
              ("nrecv-d3-sim", dict(maxdepth=3, maxlen=3, simulate=80 if tier == "quick" else 800, depth=80, tlcseed=seed()))]
    if tier != "quick":
        nplans.append(("nrecv-d2-l2", dict(maxdepth=2, maxlen=2, simulate=1500, depth=80, tlcseed=seed() + 3)))
    for name, kw in nplans:
        t0 = time.time()
        r = sidecheck.gen_nested_recv(wd, name, **kw)
        require_ok(r, "MCNestedRecv " + name)
        if r.violation:
            rp = write_replay("C14", name + "-model", {"property": "C14", "kind": "model", "invariant": r.violation,
                                                       "trace": r.trace[:5000]})
            violations.append({"what": "NestedRecv.tla: %s violated" % r.violation, "replay": rp, "key": "model-nr"})
            continue
        states += r.distinct
        transitions += r.generated
        cases = sidecheck.cases_of(r)
        n, bad = sidecheck.run_cases("C14", name, cases, violations, distinct)
        replayed += n
        if cases:
            samples.append({"plan": name, "case": cases[len(cases) // 2]})
        log("  %s: TLC %d states (%.1fs), %d values with nested receives replayed, %d bad (%.1fs)" % (
            name, r.distinct, r.wall, n, bad, time.time() - t0))
    cov = {"states": states, "transitions": transitions, "traces_validated_against_impl": replayed,
           "evaluations": replayed, "distinct_nontrivial": len(distinct),
           "rule": "every script of SideTables.tla (slots D/S/R/M/serialisation failure/nested send with live or dead "
                   "receiver, failure swallowed or propagated) to depth 1 x 2 slots exhaustively, deeper ones by TLC "
                   "simulation; plus every value of NestedRecv.tla (slots D/S/R/M/receive-and-decode inside the Deserialize impl) "
                   "to depth 1 x 2 slots exhaustively and to depth 3 x 3 slots by simulation; distinct by script shape",
           "samples": samples[:4]}
    return {"level": "model_checking", "coverage": cov, "violations": violations,
            "assumptions": ["a nested send is issued from inside a Serialize impl of the harness' scripted value type; a nested "
                            "receive from inside a Deserialize impl (try_recv on a side channel whose message was sent before)",
                            "the table lengths are read through the cfg(ipc_channel_verif) hook verif_side_table_lens(); "
                            "release is additionally observed through disconnection of the attached channels"]}


def replay(rp):
    return sidecheck.replay_one(rp)
