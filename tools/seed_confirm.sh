#!/bin/bash
# Confirm a sub-agent's mutant in its scratch worktree and file it under /verif/seeded/<name>/.
# usage: tools/seed_confirm.sh <worktree-dir> <name> <property> [cargo feature args]
set -u
WT=$1; NAME=$2; PROP=$3; shift 3; FEAT="$*"
cd "$WT" || exit 2
demo=$(ls tests/demo_*.rs | head -1); bin=$(basename "$demo" .rs)
echo "== suite with the change (demo excluded)"
cargo nextest run --workspace --no-fail-fast --test-threads 8 --offline $FEAT -E "not binary($bin)" 2>&1 | tail -1 | tee /tmp/wt/$NAME.suite.txt
echo "== demo with the change (must fail)"
timeout 600 cargo nextest run --offline $FEAT --test $bin --no-fail-fast 2>&1 | tail -1 | tee /tmp/wt/$NAME.demo_with.txt
git diff -- src > mutant.diff
git apply -R mutant.diff   # (no git stash: the stash is shared between worktrees)
echo "== demo without the change (must pass)"
timeout 600 cargo nextest run --offline $FEAT --test $bin --no-fail-fast 2>&1 | tail -1 | tee /tmp/wt/$NAME.demo_without.txt
git apply mutant.diff
mkdir -p /verif/seeded/$NAME
cp mutant.diff /verif/seeded/$NAME/patch.diff
cp "$demo" /verif/seeded/$NAME/
echo "suite: $(cat /tmp/wt/$NAME.suite.txt)"; echo "with: $(cat /tmp/wt/$NAME.demo_with.txt)"; echo "without: $(cat /tmp/wt/$NAME.demo_without.txt)"
