"""C05 - shared-memory regions arrive with identical contents."""
import chancheck


def nontrivial(b):
    # a region is compared with its creating bytes when it is read and when it is received
    if any(o["op"] == "send" and any(s["k"] == "M" for s in o.get("slots", [])) for o in b["ops"]):
        return True
    return any(o["op"] == "read" for o in b["ops"]) and any(
        o["op"] in ("send", "clone") for o in b["ops"])


def several_regions(b):
    for o in b["ops"]:
        if o["op"] == "send":
            hs = [s["h"] for s in o.get("slots", []) if s["k"] == "M"]
            if len(set(hs)) >= 2:
                return True
    return False


ALL = (0, 1, 2, 3, 4, 5, 6, 7)   # tokens for lengths 0,1,page-1,page,page+1,2p-1,2p,2p+1
# further tokens: 8 = 100000, 9 = 7, 10 = 2 MiB + 1, 11 = 3 MiB + 4097 (beyond a huge-page boundary)


def plans(tier):
    if tier == "quick":
        return [
            {"name": "bfs-os", "variant": "os", "mode": "thread",
             "gen": dict(agents=(0,), maxch=0, maxreg=2, maxslots=2, maxops=3, regionlens=(0, 2)), "filter": nontrivial,
             "limit": 3000},
            # every message that carries two different regions (lengths 0, page-1, page+1 in both orders)
            {"name": "bfs-os-2regions", "variant": "os", "mode": "thread",
             "gen": dict(agents=(0,), maxch=0, maxreg=2, maxslots=2, maxops=3, regionlens=(0, 2, 4)), "filter": several_regions},
            # one region beyond a huge-page boundary: created, cloned, sent, received, read - every order of 4 operations
            {"name": "bfs-os-2MiB", "variant": "os", "mode": "thread",
             "gen": dict(agents=(0,), maxch=0, maxreg=1, maxslots=1, maxops=4, regionlens=(10,)), "filter": nontrivial},
            {"name": "sim-os-process", "variant": "os", "mode": "process",
             "gen": dict(agents=(0, 1), maxch=1, maxreg=4, maxslots=3, maxops=16, minops=9, maxqueue=3,
                         regionlens=ALL + (10,), simulate=25, depth=100, tlcseed=chancheck.seed())},
            {"name": "sim-memfd-process", "variant": "memfd", "mode": "process",
             "gen": dict(agents=(0, 1), maxch=1, maxreg=4, maxslots=3, maxops=16, minops=9, maxqueue=3,
                         regionlens=ALL, simulate=20, depth=100, tlcseed=chancheck.seed() + 1)},
            {"name": "sim-inprocess", "variant": "inprocess", "mode": "thread",
             "gen": dict(agents=(0, 1), maxch=1, maxreg=4, maxslots=3, maxops=16, minops=9, maxqueue=3,
                         regionlens=ALL, simulate=15, depth=100, tlcseed=chancheck.seed() + 2)},
        ]
    out = []
    for variant, mode in (("os", "process"), ("os", "thread"), ("memfd", "process"), ("inprocess", "thread")):
        out.append({"name": "sim-%s-%s" % (variant, mode), "variant": variant, "mode": mode,
                    "gen": dict(agents=(0, 1), maxch=2, maxreg=8, maxslots=4, maxops=40, minops=20, maxqueue=6,
                                regionlens=ALL + (8, 9, 10, 11), simulate=100, depth=200, tlcseed=chancheck.seed() + len(out))})
    out.append({"name": "bfs-os-2MiB", "variant": "os", "mode": "thread",
                "gen": dict(agents=(0,), maxch=0, maxreg=1, maxslots=1, maxops=5, regionlens=(10, 11)), "filter": nontrivial,
                "limit": 20000})
    out.append({"name": "bfs-memfd-2MiB", "variant": "memfd", "mode": "thread",
                "gen": dict(agents=(0,), maxch=0, maxreg=1, maxslots=1, maxops=4, regionlens=(10, 11)), "filter": nontrivial})
    for variant in ("os", "memfd", "inprocess"):
        out.append({"name": "bfs-%s-2regions" % variant, "variant": variant, "mode": "thread",
                    "gen": dict(agents=(0,), maxch=0, maxreg=2, maxslots=2, maxops=3, regionlens=(0, 1, 2, 4, 9)),
                    "filter": several_regions})
    out.append({"name": "bfs-os-d4", "variant": "os", "mode": "thread",
                "gen": dict(agents=(0,), maxch=0, maxreg=2, maxslots=1, maxops=4, regionlens=(0, 2, 4)),
                "filter": nontrivial, "limit": 30000})
    return out


def run(tier):
    res = chancheck.campaign("C05", plans(tier), nontrivial,
                             "shared-memory regions (created from bytes or a fill byte, cloned, sent, read by any holder "
                             "in either process, after any drops)")
    res["assumptions"] = ["region lengths: 0, 1, page-1, page, page+1, 2 pages-1, 2 pages, 2 pages+1 (+100000, 7 in thorough); "
                          "larger regions up to 32 MiB are exercised by ./check C05 --tier thorough's bulk part",
                          "premise K12 (fstat reports the ftruncate size; mappings share bytes)"]
    return res


def replay(rp):
    return chancheck.replay_one(rp)
