"""C12 - a sender crashing mid-send cannot corrupt a message or falsely close a channel."""
import transcheck

R, T = "recv", "try"


def plans(tier):
    # sender 2 lives in a child process that is killed between two system calls; sender 1 survives
    base = [
        {"name": "kill-3pk-survivor", "msgs": [[1, 2], [3]], "plan": [R] * 4, "crashers": [2], "simulate": 60},
        {"name": "kill-2pk-nosurvivor", "msgs": [[], [1, 2]], "plan": [R] * 3, "crashers": [2], "simulate": 30},
        {"name": "kill-try-observer", "msgs": [[2], [2, 1]], "plan": [T, R, T, R, R], "crashers": [2], "simulate": 40,
         "liveness": False},
        # every multi-packet message carries a clone of its sending handle in its first packet: after the crash the
        # attachment of the torn message must be let go, or the channel never reports the disconnection
        {"name": "kill-with-attachment", "msgs": [[], [1, 3]], "plan": [R] * 3, "crashers": [2], "simulate": 30, "attach": True},
    ]
    if tier == "quick":
        return base
    for p in base:
        p["simulate"] = 600
    return base + [
        {"name": "kill-6pk-survivor", "msgs": [[1, 3], [6]], "plan": [R] * 4, "crashers": [2], "simulate": 600},
        {"name": "kill-4pk-5pk", "msgs": [[2], [4, 5]], "plan": [R, T, R, R, R], "crashers": [2], "simulate": 600,
         "liveness": False},
    ]


def set_plans(tier):
    A = lambda m: {"op": "add", "m": m}
    n = 30 if tier == "quick" else 400
    return [
        {"name": "set-kill-mid-message", "msgs": [[1, 2], [2, 1]], "prog": [A(1), A(2)], "simulate": n, "caps": (2,),
         "crashers": [2], "liveness": False},
        {"name": "set-kill-then-look", "msgs": [[2], [1]], "prog": [A(1), A(2)], "simulate": 6 if tier == "quick" else 60,
         "caps": (2,), "crashers": [1], "senders_first": True, "liveness": False},
        {"name": "set-kill-with-attachment", "msgs": [[2, 1], [1]], "prog": [A(1), A(2)], "simulate": 20 if tier == "quick" else 300,
         "caps": (2,), "crashers": [1], "attach": True, "liveness": False},
    ]


def run(tier):
    import setcheck
    res = transcheck.campaign("C12", plans(tier), "sender process killed between two system calls")
    # observer = receiver set (what a router sits on)
    r2 = setcheck.campaign("C12", set_plans(tier))
    res["violations"] += r2["violations"]
    for k in ("states", "transitions", "traces_validated_against_impl", "evaluations", "distinct_nontrivial",
              "unmatched_schedules"):
        res["coverage"][k] = res["coverage"].get(k, 0) + r2["coverage"].get(k, 0)
    res["coverage"]["samples"] += r2["coverage"]["samples"][:2]
    res["level"] = "fault_enumeration"
    res["assumptions"] = ["the crashing sender is a spawned child process held at every system-call hook and SIGKILLed "
                          "there (premise K8: death closes every descriptor); schedules are a random sample of the model's "
                          "interleavings, the model itself is checked exhaustively with the kill enabled at every step",
                          "observers: blocking recv, try_recv and a receiver set (ReceiverSet.tla with Kill); the router sits on the same set"]
    return res


def replay(rp):
    return transcheck.replay_one(rp)
