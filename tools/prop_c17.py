"""C17 - stopping a router, by shutdown or proxy drop, is clean and complete."""
import routercheck

A = lambda r: {"op": "add", "r": r}
SH = {"op": "shutdown", "r": 0}
DP = {"op": "dropproxy", "r": 0}


def run(tier):
    models = [("shutdown-race", [2, 1, 1], [[A(1), SH, A(3)], [A(2), SH]], ""),
              ("shutdown-empty", [1], [[SH, A(1)], [SH]], ""),
              ("dropproxy", [2, 1, 1], [[A(1), A(2), DP], []], "")]
    res = routercheck.campaign("C17", tier, ["shutdown", "dropproxy", "shutdown"], models)
    res["assumptions"] = ["free-running scenarios with seeded jitter; the orderings that matter are decided on the trace: a "
                          "handler entry logged after shutdown's return event, or a callback still alive at that event, is "
                          "a violation regardless of timing", "panics of any thread are recorded by a process-wide panic hook"]
    return res


def replay(rp):
    print(rp.get("why") or rp.get("reject"))
    return 0
