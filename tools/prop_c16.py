"""C16 - undecodable or mismatched payloads produce errors, not panics or leaks."""
import json
import random
import struct
import time

import sidecheck
from vlib import build_harness, log, require_ok, seed, workdir, write_replay


def u64(x):
    return struct.pack("<Q", x & 0xFFFFFFFFFFFFFFFF)


def u32(x):
    return struct.pack("<I", x)


def valid_encoding(ty, rnd, natt):
    """A bincode encoding that is valid for expected type `ty` when indices stay below natt."""
    idx = lambda: u64(rnd.randrange(0, max(1, natt)))
    s = lambda: (lambda b: u64(len(b)) + b)(bytes(rnd.randrange(97, 123) for _ in range(rnd.randrange(0, 40))))
    if ty == 0:
        return u64(rnd.getrandbits(64))
    if ty == 1:
        return s()
    if ty == 2:
        return s()
    if ty == 3:
        return u32(rnd.getrandbits(32)) + s()
    if ty == 4:
        return rnd.choice([b"\x00", b"\x01\x00", b"\x01\x01"])
    if ty == 5:
        return rnd.choice([u32(0), u32(1) + b"\x07", u32(2) + struct.pack("<h", -3) + s()])
    if ty in (6, 7, 8):
        return idx()
    if ty == 9:
        n = rnd.randrange(0, 5)
        out = u64(n)
        for _ in range(n):
            v = rnd.randrange(0, 5)
            out += u32(v) + (u64(rnd.getrandbits(20)) if v == 0 else (b"\x07" if v == 4 else idx()))
        return out
    if ty == 10:
        return idx() + idx()
    # Nested {a:u32, s:sender, v:Vec<WireStep>, m:Option<region>}
    return u32(5) + idx() + u64(1) + u32(0) + u64(9) + rnd.choice([b"\x00", b"\x01" + idx()])


def mutate(b, rnd):
    b = bytearray(b)
    for _ in range(rnd.randrange(1, 4)):
        k = rnd.randrange(0, 6)
        if k == 0 and b:
            b[rnd.randrange(len(b))] ^= 1 << rnd.randrange(8)
        elif k == 1 and b:
            del b[rnd.randrange(len(b)):]
        elif k == 2:
            b += bytes(rnd.getrandbits(8) for _ in range(rnd.randrange(1, 20)))
        elif k == 3 and len(b) >= 8:
            p = rnd.randrange(0, len(b) - 7)
            b[p:p + 8] = u64(rnd.choice([2 ** 64 - 1, 2 ** 63, 7, 64, 65, 1 << 32]))
        elif k == 4 and b:
            p = rnd.randrange(len(b))
            b[p:p] = bytes([rnd.getrandbits(8)])
        elif k == 5 and len(b) >= 8:
            p = rnd.randrange(0, len(b) - 7)
            b[p:p + 8] = u64(rnd.randrange(0, 10))
    return bytes(b)


def fuzz_cases(n, rnd):
    out = []
    for i in range(n):
        ty = i % 12
        kinds = [rnd.choice(["S", "R", "M"]) for _ in range(rnd.randrange(0, 9))]
        mode = rnd.randrange(0, 4)
        if mode == 0:
            b = bytes(rnd.getrandbits(8) for _ in range(rnd.choice([0, 1, 7, 8, 9, 16, rnd.randrange(0, 4097)])))
        elif mode == 1:
            b = valid_encoding(ty, rnd, len(kinds))
        else:
            b = mutate(valid_encoding(ty, rnd, len(kinds)), rnd)
        out.append({"mode": "fuzz", "ty": ty, "bytes": list(b), "kinds": kinds})
    return out


def run(tier):
    wd = workdir("c16")
    build_harness("os")
    rnd = random.Random(seed())
    violations, distinct, samples = [], set(), []
    states = transitions = replayed = 0
    plans = [("de-a2-r3", dict(maxatt=2, maxrefs=3))] if tier == "quick" else [
        ("de-a3-r3", dict(maxatt=3, maxrefs=3)), ("de-a2-r4", dict(maxatt=2, maxrefs=4))]
    for name, kw in plans:
        t0 = time.time()
        r = sidecheck.gen(wd, name, "de", **kw)
        require_ok(r, "MCSideTables " + name)
        if r.violation:
            rp = write_replay("C16", name + "-model", {"property": "C16", "kind": "model", "invariant": r.violation,
                                                       "trace": r.trace[:5000]})
            violations.append({"what": "SideTables.tla: %s violated" % r.violation, "replay": rp, "key": "model"})
            continue
        states += r.distinct
        transitions += r.generated
        cases = sidecheck.cases_of(r)
        if tier == "quick" and len(cases) > 6000:
            cases = rnd.sample(cases, 6000)
        n, bad = sidecheck.run_cases("C16", name, cases, violations, distinct)
        replayed += n
        samples.append({"plan": name, "case": cases[len(cases) // 2]})
        log("  %s: TLC %d states (%.1fs), %d reference sequences replayed, %d bad (%.1fs)" % (
            name, r.distinct, r.wall, n, bad, time.time() - t0))
    t0 = time.time()
    # a mismatched payload received inside another message's decode must not be handed that message's endpoints
    # (NestedRecv.tla, slot NX)
    t0 = time.time()
    r = sidecheck.gen_nested_recv(wd, "nrecv-bad", maxdepth=1, maxlen=2)
    require_ok(r, "MCNestedRecv")
    if r.violation:
        violations.append({"what": "NestedRecv.tla: %s violated" % r.violation, "key": "model-nr",
                           "replay": write_replay("C16", "nrecv-model", {"property": "C16", "kind": "model", "invariant": r.violation})})
    else:
        states += r.distinct
        transitions += r.generated
        cases = [c for c in sidecheck.cases_of(r) if '"NX"' in json.dumps(c["script"])]
        n, bad = sidecheck.run_cases("C16", "nrecv-bad", cases, violations, distinct)
        replayed += n
        log("  nrecv-bad: %d values whose Deserialize impl receives a mismatched attachment-less payload, %d bad (%.1fs)" % (
            n, bad, time.time() - t0))
    fz = fuzz_cases(1200 if tier == "quick" else 100000, rnd)
    und = [{"mode": "undecoded"} for _ in range(6)]
    n, bad = sidecheck.run_cases("C16", "fuzz", fz + und, violations, distinct)
    replayed += n
    samples.append({"plan": "fuzz", "case": {k: (v if k != "bytes" else v[:24]) for k, v in fz[7].items()}})
    log("  fuzz: %d byte strings x attachment lists x 12 expected types (+%d undecoded drops), %d bad (%.1fs)" % (
        len(fz), len(und), bad, time.time() - t0))
    cov = {"states": states, "transitions": transitions, "traces_validated_against_impl": replayed,
           "evaluations": replayed, "distinct_nontrivial": len(distinct),
           "rule": "every (attachment lists, reference sequence) of SideTables.tla's decode machine within the bounds, "
                   "each turned into a real message whose byte stream carries exactly those indices; plus seeded random / "
                   "mutated encodings for 12 expected types with 0..8 attachments (outcome Ok or Err both allowed there; "
                   "panic, abort, foreign endpoint or unreleased attachment is a violation); plus messages received "
                   "through a receiver or a set and dropped undecoded",
           "samples": samples[:4]}
    return {"level": "model_checking", "coverage": cov, "violations": violations,
            "assumptions": ["crafted messages are produced through the public API by a harness Serialize impl that "
                            "registers the attachments and then emits chosen bytes",
                            "each case is decoded on a fresh thread; a process abort is detected by the driver",
                            "bincode's handling of ordinary data is a dependency"]}


def replay(rp):
    return sidecheck.replay_one(rp)
