"""Transport.tla based checks (C02, C10, C12): TLC checks the packet protocol exhaustively and
produces schedules (sequences of (actor, system call)); the harness `sched` role executes each schedule
on real threads/processes held at system-call hooks, and the results are compared with the model's."""
import json
import os
import random
import time

from vlib import (SPEC, ToolError, build_harness, case_hash, log, run_harness, run_tlc, require_ok,
                  seed, workdir, write_replay)

INV = ("Whole AtMostOnce RealTimeFIFO DiscOnlyWhenDone BlockingRestored BlockingNeverEmpty AcceptedDelivered "
       "NoFalseSuccess SendResultsRight")
_EARLY = {}


def early_rx_close():
    """Observed parameter: does the code close its own copy of the dedicated receiver right after the first
    fragment (TRUE) or only when send returns (FALSE)? Read off a recorded two-packet send."""
    if "v" in _EARLY:
        return _EARLY["v"]
    import fragcheck
    wd = workdir("probe")
    results, raw = fragcheck.replay(wd, "probe", 4096, [{"id": 1, "len": 5000, "natt": 0, "mix": 0, "fh": []}])
    order = []
    with open(raw) as f:
        for line in f:
            e = json.loads(line)
            if e.get("a") == 1 and e["ev"] in ("sendmsg.call", "send.call", "close.call"):
                order.append(e["ev"])
    os.remove(raw)
    v = False
    if "sendmsg.call" in order and "send.call" in order:
        i, j = order.index("sendmsg.call"), order.index("send.call")
        v = "close.call" in order[i:j]
    _EARLY["v"] = v
    return v


def tla_seq(x):
    if isinstance(x, (list, tuple)):
        return "<<" + ", ".join(tla_seq(y) for y in x) + ">>"
    if isinstance(x, str):
        return '"%s"' % x
    return str(x)


def model(wd, name, msgs, plan, crashers=(), follow_on_shared=False, restore=True, incomplete="error",
          export=False, simulate=None, depth=None, tlcseed=None, liveness=True, workers=8, timeout=3000, early=None,
          inv=None):
    mod = "T_" + name.replace("-", "_")
    with open(os.path.join(wd, mod + ".tla"), "w") as f:
        f.write("---- MODULE %s ----\nEXTENDS MCTransport\nMCMsgs == %s\nMCPlan == %s\n====\n" % (
            mod, tla_seq(msgs), tla_seq(plan)))
    cfg = os.path.join(wd, mod + ".cfg")
    with open(cfg, "w") as f:
        f.write("SPECIFICATION %s\nCONSTANTS\n  Senders = {%s}\n  Msgs <- MCMsgs\n  Plan <- MCPlan\n  Crashers = {%s}\n"
                "  FollowOnShared = %s\n  RestoreBlocking = %s\n  EarlyRxClose = %s\n  IncompleteIs = \"%s\"\nINVARIANTS %s %s\n%s%s\n" % (
                    "FairSpec" if (liveness and not simulate) else "Spec",
                    ", ".join(str(i + 1) for i in range(len(msgs))), ", ".join(map(str, crashers)),
                    "TRUE" if follow_on_shared else "FALSE", "TRUE" if restore else "FALSE",
                    "TRUE" if (early_rx_close() if early is None else early) else "FALSE", incomplete, inv or INV,
                    "Export" if export else "",
                    "PROPERTIES Terminates\n" if (liveness and not simulate) else "",
                    "" if (export or simulate) else "VIEW View"))
    return run_tlc(os.path.join(wd, mod + ".tla"), cfg, cwd=wd, workers=workers, simulate=simulate, depth=depth,
                   tlcseed=tlcseed, timeout=timeout)


def schedules(r):
    out, seen = [], set()
    for line in r.lines:
        if line.startswith("@@"):
            h = case_hash(line)
            if h in seen:
                continue
            seen.add(h)
            out.append(json.loads(line[2:]))
    return out


def replay(cases, timeout=3000):
    for i, c in enumerate(cases):
        c["id"] = i
    verdicts = [None] * len(cases)
    pos = 0
    while pos < len(cases):
        chunk = cases[pos:]
        stdin = "\n".join(json.dumps(c) for c in chunk) + "\n"
        p = run_harness("os", ["sched"], stdin=stdin, timeout=timeout, env={"IPC_VERIF_SENDBUF": 4096,
                                                                         "RUST_BACKTRACE": "0"})
        last_begin = None
        for line in p.stdout.splitlines():
            if not line.startswith("{"):
                continue
            o = json.loads(line)
            if "begin" in o:
                last_begin = o["begin"]
            elif "id" in o:
                verdicts[o["id"]] = o
        if all(verdicts[c["id"]] is not None for c in chunk):
            break
        if last_begin is None:
            raise ToolError("harness sched died before starting: rc=%s\n%s" % (p.returncode, p.stderr[-3000:]))
        verdicts[last_begin] = {"id": last_begin, "died": True, "why": "process died: rc=%s %s" % (
            p.returncode, p.stderr[-800:])}
        pos = last_begin + 1
    return verdicts


SHORT = [0, 0.3, 1, 3, 20, 2]
EXPIRING = [3, 0.3, 20, 0, 1, 2]


def timeouts(plan, sched, expiring=None):
    """Per call: the duration to pass to try_recv_timeout. A poll the model ends by readiness gets a
    long one (it must return early); one the model lets expire gets a short one (it must not return
    before it)."""
    ends = [s["k"] for s in sched if s["a"] == 0 and s["k"].startswith("pollret")]
    enters = [s for s in sched if s["a"] == 0 and s["k"] == "poll"]
    out, k, nexp = [], 0, 0
    for i, mode in enumerate(plan):
        if mode == "timeout":
            end = ends[k] if k < len(ends) else "pollret-expired"
            rdy = enters[k].get("rdy", False) if k < len(enters) else False
            k += 1
            if rdy:
                # readable before the call: any timeout will do, take a tiny one
                out.append(SHORT[i % len(SHORT)])
            elif end != "pollret-ready":
                # the wait expires: the first expiring call of a schedule gets 3 ms, then 20, 1, 2, 0.3, 0
                # (rotated by the schedule's length, so that across schedules every duration - sub-millisecond ones
                # included - meets a first expiry)
                ex = expiring or EXPIRING
                out.append(ex[(nexp + len(sched)) % len(ex)])
                nexp += 1
            else:
                out.append(8000)
        else:
            out.append(0)
    return out


def judge(case, v):
    """Returns (violation or None, matched?)."""
    if v is None or v.get("died"):
        return "harness process died: %s" % (v or {}).get("why"), False
    if v.get("hang"):
        return "a receive call did not return within 10 s (receiver waits forever)", v.get("matched")
    calls = v["calls"]
    msgs = case["msgs"]
    killed = any(s["k"] == "kill" for s in case["sched"])
    dead = {s["a"] for s in case["sched"] if s["k"] == "kill"}
    seen = []
    for i, c in enumerate(calls):
        if c["res"] == "msg":
            if not c.get("intact"):
                return "call %d returned a message with altered bytes (len %s)" % (i, c.get("len")), v.get("matched")
            seen.append(tuple(c["m"]))
    if len(set(seen)) != len(seen):
        return "a message was delivered twice: %s" % seen, v.get("matched")
    per = {}
    for (s, j) in seen:
        if j <= per.get(s, 0):
            return "messages of sender %d out of order: %s" % (s, seen), v.get("matched")
        per[s] = j
    for i, c in enumerate(calls):
        if i >= len(case["plan"]):
            break
        if c["res"] == "empty" and case["plan"][i] == "recv":
            return "blocking recv returned 'empty' (call %d)" % i, v.get("matched")
        if c["res"] == "error" and not killed:
            return "call %d failed: %s" % (i, c.get("detail")), v.get("matched")
    for i, c in enumerate(calls):
        if case["plan"][i] == "timeout" and "elapsed_us" in c:
            d = case.get("tmo", [4] * len(calls))[i]
            # measured from the moment the thread was let into poll() (time parked at a gate does not count)
            waited = c.get("poll_us", c["elapsed_us"])
            if c["res"] == "empty" and waited < int(d) * 1000:
                return "try_recv_timeout(%s ms) reported 'empty' after only %d us" % (d, waited), v.get("matched")
            if v.get("matched") and d >= 8000 and c["res"] != "empty" and c["elapsed_us"] > 6000000:
                return "try_recv_timeout(%s ms) did not return early although a message/disconnection was there (%d us)" % (
                    d, c["elapsed_us"]), True
    import re as _re
    mk = _re.search(r"actor 0 is blocked in the kernel \(syscall (-?\d+)\)", v.get("why", ""))
    # asleep in recvmsg (47) or poll/ppoll (7/271) on the channel's socket; waiting for the follow-up fragments of a
    # message whose first fragment has arrived (recvfrom, 45) is the transport's documented behaviour
    if (not v.get("matched")) and mk and int(mk.group(1)) in (47, 7, 271):
        i = v.get("diverged_in_call", -1)
        if 0 <= i < len(case["plan"]) and case["plan"][i] == "try":
            return "try_recv (call %d) went to sleep in the kernel: %s" % (i, v.get("why")), False
        # a timed receive sleeps in poll() (and, once a message has begun, in the follow-up reads) - never in recvmsg on
        # the channel's socket: that wait has no timeout
        if 0 <= i < len(case["plan"]) and case["plan"][i] == "timeout" and int(mk.group(1)) == 47:
            return "try_recv_timeout (call %d, %s ms) went to sleep in recvmsg, a wait without a timeout: %s" % (
                i, case.get("tmo", [None] * (i + 1))[i], v.get("why")), False
    # the model ends a timed wait because a packet or the hang-up is there (the sender's call has returned), yet the
    # receiving thread stayed in its wait for another 5 s: it does not "return early with the message or the disconnection"
    if (not v.get("matched")) and "stays asleep in the kernel at 'pollret-ready'" in v.get("why", ""):
        i = v.get("diverged_in_call", -1)
        if 0 <= i < len(case["plan"]) and case["plan"][i] == "timeout":
            return "try_recv_timeout (call %d) stayed in its wait although a message/disconnection was there: %s" % (
                i, v.get("why")), False
    if v.get("matched") and "sends" in v:
        want = sorted((x["s"], x["j"], x["res"]) for x in case.get("slog", []))
        got_s = sorted((x[0], x[1], "ok" if x[2] else "err") for x in v["sends"])
        if want and got_s != want:
            return "results of the sends %s differ from the model's %s" % (got_s, want), True
    if v.get("matched") and case.get("falseOk"):
        return ("send returned Ok for a message whose last fragments were transmitted after the receiving end was gone "
                "(nobody can ever read them; with larger messages the send blocks forever): sends %s" % v.get("sends")), True
    if v.get("matched"):
        # the schedule was executed as generated: the model's results must be the code's
        got = [c["res"] for c in calls]
        if got != case["rlog"]:
            return "results of the receive calls %s differ from the model's %s" % (got, case["rlog"]), True
        if [list(m) for m in seen] != [list(m) for m in case["delivered"]]:
            return "delivery order %s differs from the model's %s" % (seen, case["delivered"]), True
    else:
        # free run after a divergence: only what the property itself says
        for i, c in enumerate(calls):
            if c["res"] == "disc":
                # every surviving sender's messages must have been delivered before
                for s, ms in enumerate(msgs, 1):
                    if s in dead:
                        continue
                    if per.get(s, 0) < len(ms) and all(cc["res"] != "msg" or tuple(cc["m"])[0] != s or True
                                                      for cc in calls[i:]):
                        got_after = [tuple(cc["m"]) for cc in calls[i:] if cc["res"] == "msg"]
                        delivered_before = [m for m in seen if m not in got_after]
                        if sum(1 for m in delivered_before if m[0] == s) < len(ms):
                            return "'disconnected' reported before all messages of sender %d were delivered" % s, False
    return None, v.get("matched")


def campaign(pid, plans, what, extra_violation=None):
    wd = workdir(pid.lower())
    build_harness("os")
    violations, distinct, samples = [], set(), []
    states = transitions = replayed = unmatched = 0
    protocol_lost = []
    rnd = random.Random(seed())
    for pl in plans:
        t0 = time.time()
        kw = dict(msgs=pl["msgs"], plan=pl["plan"], crashers=pl.get("crashers", ()))
        # exhaustive check of the design
        r = model(wd, pl["name"] + "-mc", liveness=pl.get("liveness", True), **kw)
        require_ok(r, "Transport " + pl["name"])
        inv_for_gen = INV
        if r.violation == "NoFalseSuccess":
            # the design with the close order the code uses admits a false success: demonstrate it on the code
            inv_for_gen = INV.replace("NoFalseSuccess", "")
        elif r.violation:
            rp = write_replay(pid, pl["name"] + "-model", {"property": pid, "kind": "model", "invariant": r.violation,
                                                           "trace": r.trace[:6000]})
            violations.append({"what": "Transport.tla: %s violated (%s)" % (r.violation, pl["name"]), "replay": rp,
                               "key": "model"})
            continue
        states += r.distinct
        transitions += r.generated
        # schedules: random walks through the same model
        g = model(wd, pl["name"] + "-gen", export=True, simulate=pl.get("simulate", 50), depth=200,
                  tlcseed=seed() + len(samples), liveness=False, inv=inv_for_gen, **kw)
        require_ok(g, "Transport gen " + pl["name"])
        sch = schedules(g)
        if pl.get("limit") and len(sch) > pl["limit"]:
            sch = rnd.sample(sch, pl["limit"])
        cases = [{"msgs": pl["msgs"], "plan": pl["plan"], "procs": list(pl.get("procs", pl.get("crashers", ()))),
                  "sched": s["sched"], "rlog": s["rlog"], "delivered": s["delivered"], "slog": s.get("slog", []), "falseOk": s.get("falseOk", False),
                  "tmo": timeouts(pl["plan"], s["sched"], pl.get("expiring")), "attach": bool(pl.get("attach"))} for s in sch]
        # the first schedules tell whether the code still follows the model's system-call protocol at all; when
        # nearly none of them can be executed as generated, the rest would only cost time (each abandoned schedule
        # waits for its actors) and the comparison falls back to the call-level oracles
        head = cases[:24]
        verdicts = replay(head)
        lost = sum(1 for c, v in zip(head, verdicts) if not judge(c, v)[1])
        if len(cases) > len(head):
            if lost * 10 >= len(head) * 9:
                log("  %s: %d of the first %d schedules could not be executed as generated: the code's system-call "
                    "sequence is not the model's; remaining %d schedules skipped" % (pl["name"], lost, len(head),
                                                                                     len(cases) - len(head)))
                protocol_lost.append(pl["name"])
                cases = head
            else:
                verdicts += replay(cases[len(head):])
        for i, c in enumerate(cases):
            c["id"] = i
        nbad = 0
        for c, v in zip(cases, verdicts):
            replayed += 1
            viol, matched = judge(c, v)
            if not matched:
                unmatched += 1
            distinct.add(case_hash([(s["a"], s["k"]) for s in c["sched"]]))
            if viol:
                nbad += 1
                if nbad <= 5:
                    rp = write_replay(pid, "%s-%d" % (pl["name"], c["id"]), {"property": pid, "kind": "sched", "case": c,
                                                                            "verdict": v, "why": viol})
                    violations.append({"what": "%s [%s]: %s; schedule %s" % (
                        what, pl["name"], viol, " ".join("%s:%s" % (s["a"], s["k"]) for s in c["sched"])[:400]),
                        "replay": rp, "key": "sched:" + viol[:60]})
        if cases:
            samples.append({"plan": pl["name"], "schedule": " ".join("%s:%s" % (s["a"], s["k"]) for s in cases[0]["sched"]),
                            "model_results": cases[0]["rlog"]})
        log("  %s: TLC %d distinct states exhaustive (%.1fs); %d schedules replayed, %d unmatched so far, %d bad (%.1fs)" % (
            pl["name"], r.distinct, r.wall, len(cases), unmatched, nbad, time.time() - t0))
    cov = {"states": states, "transitions": transitions, "traces_validated_against_impl": replayed,
           "unmatched_schedules": unmatched, "evaluations": replayed, "distinct_nontrivial": len(distinct),
           "rule": "schedules = TLC random walks through Transport.tla for each program (senders x message shapes x "
                   "receive plan), executed with every actor held at its system-call hooks; distinct by the sequence of "
                   "(actor, system call)",
           "samples": samples[:5]}
    if protocol_lost:
        cov["syscall_protocol_not_followed_in_plans"] = protocol_lost
    return {"level": "model_checking", "coverage": cov, "violations": violations}


def replay_one(rp):
    if rp.get("kind") != "sched":
        print(json.dumps(rp, indent=1)[:4000])
        return 0
    build_harness("os")
    v = replay([rp["case"]])[0]
    viol, _ = judge(rp["case"], v)
    print(json.dumps(v, indent=1))
    if viol:
        print("VIOLATION property=%s replay=(this file)" % rp["property"])
        return 1
    print("schedule conforms now")
    return 0
