"""C06 - a receiver set reports every event of every member exactly once."""
import setcheck

A = lambda m: {"op": "add", "m": m}
S = {"op": "select", "m": 0}


def plans(tier):
    base = [
        {"name": "3m-add-during", "msgs": [[1, 2], [2], [1]], "prog": [A(1), A(2), S, A(3)], "simulate": 40},
        {"name": "3m-add-late", "msgs": [[1, 1], [2, 1], []], "prog": [A(1), S, A(2), S, A(3)], "simulate": 40,
         "liveness": False},
        {"name": "2m-queued-before-add", "msgs": [[2, 1], [1]], "prog": [S, A(2), A(1)][1:], "simulate": 30},
    ]
    base += [
        # a burst already queued when the set first looks at the member (more than any plausible per-event budget)
        {"name": "bulk-queued-first", "msgs": [[1] * 200, [1, 1]], "prog": [A(1), A(2)], "simulate": 2, "depth": 1500, "caps": (2,),
         "senders_first": True, "liveness": False},
        # more members ready in one epoll_wait than the events buffer holds (capacity 10 in the code): the rest must come
        # out of the following waits although nothing new arrives on them
        {"name": "11-ready-at-once", "msgs": [[1]] * 11, "prog": [A(m) for m in range(1, 12)], "simulate": 2, "depth": 400,
         "caps": (10,), "senders_first": True, "liveness": False},
        # members 3 and 4 are created only after members 1 and 2 have closed and left the set: their descriptors get the
        # numbers of the departed ones; whatever the set remembers per descriptor number must not outlive the member
        {"name": "late-members-reuse-fds", "msgs": [[1], [1], [1, 1], [2]], "prog": [A(1), A(2), S, S, A(3), A(4)], "simulate": 25,
         "caps": (2,), "late": [3, 4], "liveness": False},
        # the sender of a fragmented message is killed mid-message; observed through the set
        {"name": "kill-mid-message", "msgs": [[1, 2], [2, 1]], "prog": [A(1), A(2)], "simulate": 30, "caps": (2,),
         "crashers": [2], "liveness": False},
        {"name": "kill-then-look", "msgs": [[2], [1]], "prog": [A(1), A(2)], "simulate": 6, "caps": (2,),
         "crashers": [1], "senders_first": True, "liveness": False},
    ]
    if tier == "quick":
        return base
    for p in base:
        p["simulate"] = 500
    return base + [
        {"name": "4m", "msgs": [[1], [2], [1, 1], [2]], "prog": [A(1), A(2), S, A(3), S, A(4)], "simulate": 500,
         "caps": (1, 2), "liveness": False},
    ]


def burst_stage(tier):
    """ReceiverSet.tla's "all sends, then selects" behaviours at sizes gated schedules cannot carry (they reach the code's real
    capacities: 10 events per wait, hundreds of results per call), free-running, on the three builds."""
    import json
    from vlib import build_harness, run_harness, write_replay, log
    shapes = [(12, 40), (9, 30), (20, 26), (3, 200), (11, 1), (30, 12), (64, 5)]
    if tier != "quick":
        shapes += [(m, k) for m in (8, 10, 16, 40, 64) for k in (1, 7, 33, 64, 90)]
    cases = []
    for m, k in shapes:
        for close in (False, True):
            cases.append({"id": len(cases) + 1, "members": m, "msgs": k, "close": close, "len": 16 if (m + k) % 2 else 100})
    violations = []
    for variant in (("os",) if tier == "quick" else ("os", "memfd", "inprocess")):
        build_harness(variant)
        todo = list(cases)
        nbad = 0
        while todo and nbad < 4:
            p = run_harness(variant, ["setburst"], stdin="\n".join(json.dumps(c) for c in todo) + "\n", timeout=900)
            outs, last = {}, None
            for line in p.stdout.splitlines():
                if line.startswith("{"):
                    o = json.loads(line)
                    if "begin" in o:
                        last = o["begin"]
                    else:
                        outs[o["id"]] = o
            done = 0
            for c in todo:
                o = outs.get(c["id"])
                if o is None:
                    if c["id"] == last:
                        o = {"ok": False, "why": "the process died (rc=%s): %s" % (p.returncode, (p.stderr or "")[-300:])}
                        done += 1
                    else:
                        break
                else:
                    done += 1
                if not o.get("ok"):
                    nbad += 1
                    violations.append({"what": "receiver set burst [%s] %d members x %d messages%s: %s" % (
                        variant, c["members"], c["msgs"], ", senders dropped" if c["close"] else "", o.get("why")),
                        "key": "burst:" + str(o.get("why"))[:50],
                        "replay": write_replay("C06", "burst-%s-%d" % (variant, c["id"]), {"property": "C06", "kind": "burst",
                                               "variant": variant, "case": c, "observed": o})})
            if done == 0:
                break
            todo = todo[done:]
        log("  bursts [%s]: %d shapes, %d bad" % (variant, len(cases), nbad))
    return violations, len(cases)


def run(tier):
    res = setcheck.campaign("C06", plans(tier))
    bv, bn = burst_stage(tier)
    res["violations"] += bv
    res["coverage"]["evaluations"] = res["coverage"].get("evaluations", 0) + bn
    res["coverage"]["burst_shapes_free_running"] = bn
    res["assumptions"] = ["premise K10 (edge-triggered epoll: arrivals/hang-ups re-arm; registration reports existing "
                          "readiness; ready list in arming order - a different order only makes a schedule 'unmatched')",
                          "model exhaustive for <=4 members x <=2 messages x Cap in {1,2}; the code's capacity (10) is used "
                          "for the replayed schedules; EINTR is produced by a real signal (SIGUSR1 without SA_RESTART) sent "
                          "to the selecting thread while it sleeps in epoll_wait",
                          "sets of up to 64 members are exercised by the thorough tier's free-running part"]
    return res


def replay(rp):
    if rp.get("kind") == "burst":
        import json
        from vlib import build_harness, run_harness
        build_harness(rp["variant"])
        p = run_harness(rp["variant"], ["setburst"], stdin=json.dumps(rp["case"]) + "\n", timeout=120)
        print(p.stdout[-1500:], p.stderr[-500:])
        if '"ok":true' in p.stdout:
            print("case passes now")
            return 0
        print("VIOLATION property=C06 replay=(this file)")
        return 1
    return setcheck.replay_one(rp)
