"""C13 - transient buffer exhaustion (ENOBUFS) during send is absorbed or reported."""
import fragcheck


def shapes(maxfrag, frag):
    # one packet <= 2000 B, one packet > 2000 B, 2, 3 and 6 packets
    s = [100, 1999, 2000, 2001, min(3000, maxfrag), maxfrag, maxfrag + 1, maxfrag + 100,
         maxfrag + frag + 100, maxfrag + 4 * frag + 100]
    return sorted(set(s))


def configs(tier):
    if tier == "quick":
        return [
            {"name": "sb4096-f7", "sb": 4096, "lens": shapes, "atts": [0, 3], "maxfault": 7, "mixes": [2], "hard": [1, 2, 3, 4]},
            {"name": "sys-f3", "sb": None, "lens": shapes, "atts": [0, 3], "maxfault": 3, "mixes": [2]},
        ]
    return [
        {"name": "sb4096-f10", "sb": 4096, "lens": shapes, "atts": [0, 3], "maxfault": 10, "mixes": [2, 3], "hard": [1, 2, 3, 4, 5, 6]},
        {"name": "sb8192-f10", "sb": 8192, "lens": shapes, "atts": [0, 3], "maxfault": 10, "mixes": [2]},
        {"name": "sb20000-f10", "sb": 20000, "lens": shapes, "atts": [0, 1, 3], "maxfault": 10, "mixes": [2]},
        {"name": "sb5001-f9", "sb": 5001, "lens": shapes, "atts": [0, 3], "maxfault": 9, "mixes": [3]},
        {"name": "sys-f8", "sb": None, "lens": shapes, "atts": [0, 3], "maxfault": 8, "mixes": [2], "limit": 6000,
         "liveness": False},
    ]


def run(tier):
    res = fragcheck.campaign("C13", configs(tier), max_trace_cases=3000 if tier == "quick" else 20000)
    res["level"] = "fault_enumeration"
    res["assumptions"] = ["ENOBUFS is injected at the hook in front of sendmsg/send (premise K4: a failed "
                          "transmission transfers nothing)", "kernel premises K1/K2 are re-checked on every "
                          "recorded receive by FragTrace.tla"]
    return res


def replay(rp):
    return fragcheck.replay_one(rp)
