"""Fifo.tla / FifoTrace.tla (C02 at call level): TLC checks that the trace rules are necessary conditions of a
linearisable FIFO channel; free-running scenarios with up to 8 senders (threads on own handles, clones, spawned
processes) and five receiver behaviours are recorded and every delivery / disconnection is validated by TLC
against FifoTrace.tla (binding B3)."""
import json
import os
import random
import time

from vlib import (SPEC, ToolError, build_harness, case_hash, log, run_harness, run_tlc, require_ok, seed, workdir,
                  write_replay)

MAXS, MAXJ = 8, 24
RECEIVERS = ["eager", "delayed", "try", "timeout", "mixed", "set", "set-late"]


def model(wd, name, nmsgs, timeout=3000, discipline="fifo"):
    mod = "F_" + name
    with open(os.path.join(wd, mod + ".tla"), "w") as f:
        f.write("---- MODULE %s ----\nEXTENDS Fifo\nMCN == %s\n====\n" % (
            mod, "<<" + ", ".join(map(str, nmsgs)) + ">>"))
    cfg = os.path.join(wd, mod + ".cfg")
    with open(cfg, "w") as f:
        f.write("SPECIFICATION Spec\nCONSTANTS\n  Senders = {%s}\n  MaxJ = %d\n  NMsgs <- MCN\n  Discipline = \"%s\"\n"
                "INVARIANTS RealTimeFIFO OnceEach\nPROPERTIES DeliverRule DisconnectRule\n" % (
                    ", ".join(str(i + 1) for i in range(len(nmsgs))), max(nmsgs), discipline))
    return run_tlc(os.path.join(wd, mod + ".tla"), cfg, cwd=wd, workers=8, timeout=timeout)


def lens_for(rnd, maxfrag, frag):
    one = [16, 100, 2000, maxfrag - 8, maxfrag]
    multi = [maxfrag + 1, maxfrag + frag, maxfrag + frag + 1, maxfrag + 3 * frag + 17, maxfrag + 8 * frag]
    style = rnd.choice(["small", "big", "mixed", "mixed"])
    k = rnd.randrange(0, (MAXJ if style == "small" else 12) + 1)
    out = []
    for _ in range(k):
        if style == "small":
            out.append(rnd.choice(one))
        elif style == "big":
            out.append(rnd.choice(multi))
        else:
            out.append(rnd.choice(one + multi))
    return out


def gen_scenario(rnd, i, maxfrag, frag, procs=True):
    n = rnd.choice([1, 2, 3, 3, 4, 5, 8])
    kinds = ["thread", "clone", "proc", "fork"] if procs else ["thread", "clone"]
    senders = [{"kind": rnd.choice(kinds), "lens": lens_for(rnd, maxfrag, frag)} for _ in range(n)]
    receiver = RECEIVERS[i % len(RECEIVERS)]
    if receiver == "set-late" and i % 2 == 0:
        # a burst: far more small messages than any per-wake-up budget, all queued (and their senders gone) before
        # the set looks for the first time
        senders = [{"kind": rnd.choice(kinds), "lens": [rnd.choice([16, 100]) for _ in range(MAXJ)]}
                   for _ in range(rnd.choice([6, 8]))]
    return {"id": i, "seed": rnd.randrange(1 << 30), "senders": senders, "receiver": receiver}


KEEP = {"f.scenario", "f.call", "f.ret", "f.drop", "f.recv", "f.disc", "f.end"}


def convert(raw, outp):
    evs = []
    with open(raw) as f:
        for line in f:
            try:
                evs.append(json.loads(line))
            except ValueError:
                pass
    evs.sort(key=lambda e: e["g"])
    out = []
    for e in evs:
        if e["ev"] in KEEP:
            out.append({"ev": e["ev"], "s": e.get("s", 0), "j": e.get("j", 0), "ok": e.get("ok", 0),
                        "intact": e.get("intact", 0), "n": e.get("n", 0), "id": e.get("id", 0)})
    with open(outp, "w") as f:
        for o in out:
            f.write(json.dumps(o) + "\n")
    return out


def validate(wd, name, compact):
    cfg = os.path.join(wd, name + ".trace.cfg")
    with open(cfg, "w") as f:
        f.write("SPECIFICATION TraceSpec\nCONSTANTS\n  Senders = {%s}\n  MaxJ = %d\n  NMsgs <- TraceN\n  Discipline = \"fifo\"\n"
                "INVARIANTS OnceEach\nPOSTCONDITION TraceAccepted\nCHECK_DEADLOCK FALSE\n" % (
                    ", ".join(map(str, range(1, MAXS + 1))), MAXJ))
    r = run_tlc(os.path.join(SPEC, "FifoTrace.tla"), cfg, workers=1, env={"TRACE": compact},
                jvm=["-Xmx4g", "-Xss1g", "-Dtlc2.tool.queue.IStateQueue=StateDeque"], timeout=1800)
    reject = None
    lines = r.raw.splitlines()
    for i, line in enumerate(lines):
        if "@@REJECT" in line:
            reject = " ".join(x.strip() for x in lines[i:i + 8])
    return r, reject


def campaign(pid, tier, variant="os", sb=4096, nsc=None, models=True):
    wd = workdir(pid.lower() + "-fifo-" + variant + str(sb))
    build_harness(variant)
    rnd = random.Random(seed() + 17)
    violations, distinct, samples = [], set(), []
    states = transitions = 0
    if models:
        for name, nm in ([("f221", [2, 2, 1])] if tier == "quick" else [("f221", [2, 2, 1]), ("f32", [3, 2]), ("f1111", [1, 1, 1, 1])]):
            r = model(wd, name, nm)
            require_ok(r, "Fifo " + name)
            if r.violation:
                rp = write_replay(pid, "fifo-" + name + "-model", {"property": pid, "kind": "model", "invariant": r.violation,
                                                                   "trace": r.trace[:6000]})
                violations.append({"what": "Fifo.tla: %s violated" % r.violation, "replay": rp, "key": "model-fifo"})
            else:
                states += r.distinct
                transitions += r.generated
                log("  Fifo model %s: %d distinct states (%.1fs)" % (name, r.distinct, r.wall))
    if variant == "inprocess":
        maxfrag, frag = 4000, 4000
    else:
        import fragcheck
        c = fragcheck.code_constants([sb], variant)[sb][0]
        maxfrag, frag = c["maxfrag"], c["frag"]
    nsc = nsc or (90 if tier == "quick" else 1500)
    scs = [gen_scenario(rnd, i, maxfrag, frag, procs=(variant != "inprocess")) for i in range(nsc)]
    validated = 0
    proto_events = [0]
    B = 30 if tier == "quick" else 100
    for b in range(0, nsc, B):
        if len(violations) >= 5:
            break
        chunk = scs[b:b + B]
        raw = os.path.join(wd, "fifo-%d.ndjson" % b)
        if os.path.exists(raw):
            os.remove(raw)
        env = {"IPC_VERIF_TRACE": raw, "RUST_BACKTRACE": "0"}
        if sb:
            env["IPC_VERIF_SENDBUF"] = sb
        todo = list(chunk)
        outs = {}
        stderr = ""
        while todo:
            p = run_harness(variant, ["fifo"], stdin="\n".join(json.dumps(s) for s in todo) + "\n", env=dict(env, IPC_VERIF_SEQ=raw + ".seq"),
                            timeout=2400)
            stderr += p.stderr
            seen = []
            for line in p.stdout.splitlines():
                if line.startswith("{"):
                    o = json.loads(line)
                    outs[o["id"]] = o
                    seen.append(o["id"])
            if p.returncode == 0:
                break
            # the role stops after a hang/crash: go on behind the scenario that was in progress
            done = len(seen)
            if done < len(todo) and not seen or (seen and not outs[seen[-1]].get("hang")):
                victim = todo[done] if done < len(todo) else None
                if victim is not None:
                    outs[victim["id"]] = {"id": victim["id"], "died": True, "rc": p.returncode, "stderr": p.stderr[-500:]}
                    done += 1
            todo = todo[done:]
        for sc in chunk:
            distinct.add(case_hash([[s["kind"], s["lens"]] for s in sc["senders"]] + [sc["receiver"]]))
            o = outs.get(sc["id"])
            total = sum(len(s["lens"]) for s in sc["senders"])
            why = None
            if o is None:
                why = "no result"
            elif o.get("died"):
                why = "harness process died (rc=%s): %s" % (o.get("rc"), o.get("stderr", "")[-200:])
            elif o.get("hang"):
                why = "receiver or a sender did not finish within 60 s (a message or the disconnection never arrived)"
            elif o.get("panic"):
                why = "a thread panicked"
            elif o.get("error"):
                why = o["error"]
            elif o.get("altered"):
                why = "messages delivered with altered bytes: %s" % o["altered"][:3]
            elif o["received"] != total:
                why = "%d messages delivered, %d sent successfully before the disconnection" % (o["received"], total)
            if why:
                rp = write_replay(pid, "fifo-sc-%d" % sc["id"], {"property": pid, "kind": "fifo", "variant": variant, "sb": sb,
                                                                 "scenario": sc, "observed": o, "why": why})
                violations.append({"what": "free-running senders [%s, %s]: %s" % (variant, sc["receiver"], why), "replay": rp,
                                   "key": "fifo:" + why[:50]})
        compact = os.path.join(wd, "fifo-%d.compact.ndjson" % b)
        evs = convert(raw, compact)
        tr, reject = validate(wd, "fifo-%d" % b, compact)
        require_ok(tr, "FifoTrace")
        if tr.violation or reject:
            rp = write_replay(pid, "fifo-trace-%d" % b, {"property": pid, "kind": "fifo-trace", "variant": variant, "sb": sb,
                                                        "scenarios": chunk, "violation": tr.violation, "reject": reject})
            violations.append({"what": "recorded run is not a behaviour of Fifo.tla (a delivery out of real-time order, twice, "
                                       "or a disconnection with accepted messages undelivered): %s %s" % (
                                           tr.violation or "", (reject or "")[:300]), "replay": rp, "key": "fifo-trace"})
        else:
            validated += len(chunk)
            states += tr.distinct
            transitions += tr.generated
        # the same run at system-call level: every send/receive follows the per-message packet protocol
        import protocheck
        pcompact = os.path.join(wd, "fifo-%d.proto.ndjson" % b)
        pevs, overflow = protocheck.convert(raw, pcompact)
        if variant != "inprocess" and pevs and not overflow:
            pr, preject = protocheck.validate(wd, "fifo-%d" % b, pcompact)
            require_ok(pr, "ProtoTrace")
            if pr.violation or preject:
                rp = write_replay(pid, "fifo-proto-%d" % b, {"property": pid, "kind": "fifo-proto", "variant": variant, "sb": sb,
                                                            "scenarios": chunk, "violation": pr.violation, "reject": preject})
                violations.append({"what": "recorded system calls are not the packet protocol of Transport.tla (a fragmented message "
                                           "without a socket pair of its own, a follow-up on another socket, the sender's copy of the "
                                           "dedicated receiving end still open, or a receiver reading the rest elsewhere): %s %s" % (
                                               pr.violation or "", (preject or "")[:300]), "replay": rp, "key": "fifo-proto"})
            else:
                states += pr.distinct
                transitions += pr.generated
                proto_events[0] += len(pevs)
        if len(samples) < 2:
            samples.append({"scenario": chunk[0], "events_head": evs[:20]})
        for f in (raw, raw + ".seq"):
            if os.path.exists(f):
                os.remove(f)
    log("  fifo[%s sb=%s]: %d scenarios, %d validated against FifoTrace.tla, %d violations" % (
        variant, sb, nsc, validated, len(violations)))
    cov = {"states": states, "transitions": transitions, "traces_validated_against_impl": validated, "evaluations": nsc,
           "distinct_nontrivial": len(distinct), "samples": samples,
           "syscall_events_validated_against_ProtoTrace": proto_events[0]}
    return {"coverage": cov, "violations": violations}
