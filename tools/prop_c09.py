"""C09 - sending to a vanished receiver fails cleanly; one in transit still counts."""
import chancheck


def nontrivial(b):
    ops = b["ops"]
    if any(o["op"] in ("send", "probe") and o.get("res") == "err" for o in ops):
        return True
    return any(o["op"] == "send" and any(s["k"] == "R" for s in o.get("slots", [])) for o in ops)


def no_big_sends(b):
    return not any(o["op"] in ("send", "probe") and o.get("big") for o in b["ops"])


# an endpoint travels inside a message, is received (blocking, non-blocking or timed), some handle is dropped and a send
# follows (then every sender is probed) - while an unrelated child process started right after the receipt lives on:
# exhaustive after the prescribed prelude
TRANSIT_STORY = ["new", "send", "recv", "drop", "send"]
TRANSIT = {"name": "story-transit-bystander", "variant": "os", "mode": "thread", "bystander": True,
           "gen": dict(agents=(0,), maxch=2, maxreg=0, maxslots=1, maxops=len(TRANSIT_STORY), story=TRANSIT_STORY)}


def plans(tier):
    if tier == "quick":
        return [
            TRANSIT,
            {"name": "bfs-1agent", "variant": "os", "mode": "thread",
             "gen": dict(failsends=True, agents=(0,), maxch=2, maxreg=0, maxslots=1, maxops=3), "filter": nontrivial},
            {"name": "bfs-2agents-process", "variant": "os", "mode": "process",
             "gen": dict(agents=(0, 1), maxch=1, maxreg=0, maxslots=1, maxops=3), "filter": nontrivial, "limit": 1500},
            {"name": "sim-process", "variant": "os", "mode": "process",
             "gen": dict(failsends=True, agents=(0, 1), maxch=3, maxreg=1, maxslots=2, maxops=16, minops=8, maxqueue=3,
                         kinds=("typed", "bytes"), simulate=30, depth=100, tlcseed=chancheck.seed())},
        ]
    return [
        TRANSIT, dict(TRANSIT, name="story-transit-bystander-memfd", variant="memfd"),
        dict(TRANSIT, name="story-transit-any-bystander",
             gen=dict(TRANSIT["gen"], story=["new", "send", "recv", "*", "*"])),
        {"name": "bfs-1agent-d4", "variant": "os", "mode": "thread",
         "gen": dict(failsends=True, agents=(0,), maxch=2, maxreg=0, maxslots=1, maxops=4), "filter": nontrivial},
        {"name": "bfs-2agents-process-d4", "variant": "os", "mode": "process",
         "gen": dict(agents=(0, 1), maxch=1, maxreg=0, maxslots=1, maxops=4), "filter": nontrivial, "limit": 20000},
        {"name": "sim-process", "variant": "os", "mode": "process",
         "gen": dict(failsends=True, agents=(0, 1), maxch=5, maxreg=1, maxslots=2, maxops=50, minops=20, maxqueue=4,
                     kinds=("typed", "bytes"), simulate=200, depth=300, tlcseed=chancheck.seed())},
        # with the system's own buffer size a "big" (multi-packet) message is larger than what the kernel queues without a
        # reader, and a thread that sends one to a receiver nobody is reading blocks by design: small messages only
        {"name": "sim-thread-sysbuf", "variant": "os", "mode": "thread", "sb": None, "filter": no_big_sends,
         "gen": dict(failsends=True, agents=(0, 1), maxch=4, maxreg=1, maxslots=2, maxops=30, minops=12, maxqueue=3,
                     kinds=("typed", "bytes"), simulate=40, depth=200, tlcseed=chancheck.seed() + 1)},
        {"name": "sim-inprocess", "variant": "inprocess", "mode": "thread",
         "gen": dict(failsends=True, agents=(0, 1), maxch=4, maxreg=1, maxslots=2, maxops=30, minops=12, maxqueue=3,
                     kinds=("typed", "bytes"), simulate=40, depth=200, tlcseed=chancheck.seed() + 2)},
    ]


def drop_plans(tier):
    """The receiving end is dropped at a point inside a stream of (multi-packet) sends from other threads/processes."""
    n = 40 if tier == "quick" else 500
    return [
        {"name": "drop-during-3pk", "msgs": [[3, 1], [1, 2]], "plan": ["recv", "drop"], "simulate": n, "liveness": False},
        {"name": "drop-at-once", "msgs": [[2, 1], [3]], "plan": ["drop"], "simulate": n, "liveness": False},
        {"name": "drop-proc-sender", "msgs": [[1, 3], [2, 2]], "plan": ["try", "drop"], "procs": [2], "simulate": n // 2,
         "liveness": False},
    ]


def run(tier):
    import transcheck
    r2 = transcheck.campaign("C09", drop_plans(tier), "receiver dropped inside a stream of sends")
    res = chancheck.campaign("C09", plans(tier), nontrivial,
                             "sends to receivers that were dropped, died with their carrier queue or with their process, "
                             "and sends to receivers in transit (SIGPIPE at its default disposition in every agent)")
    res["violations"] += r2["violations"]
    for k in ("states", "transitions", "traces_validated_against_impl", "evaluations", "distinct_nontrivial"):
        res["coverage"][k] += r2["coverage"].get(k, 0)
    # the descriptor-level account (shared descriptors of clones, references in flight, cascading destruction of
    # queues, process exit) agrees with the handle-level predicates the behaviours above were generated from
    uh = [("q", dict(chans=2, procs=2, maxops=6))] if tier == "quick" else [
        ("t2", dict(chans=2, procs=2, maxops=8)), ("t3", dict(chans=3, procs=2, maxops=5))]
    chancheck.add_unix_handles("C09", res, chancheck.workdir("c09"), uh)
    res["coverage"]["unmatched_schedules"] = r2["coverage"].get("unmatched_schedules", 0)
    res["coverage"]["samples"] += r2["coverage"]["samples"][:2]
    res["assumptions"] = ["SIGPIPE is reset to SIG_DFL in the harness processes: a signal-terminated agent shows up as a "
                          "died process", "a send that blocks forever is caught by the 20 s no-progress watchdog"]
    return res


def replay(rp):
    return chancheck.replay_one(rp)
