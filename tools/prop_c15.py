"""C15 - messages with too many attachments for one message are refused, not mangled."""
import fragcheck


def data_lens(maxfrag, frag):
    return sorted({0, 10, maxfrag, maxfrag + 1, maxfrag + frag + 5})


ATTS_QUICK = [0, 1, 62, 63, 64, 65, 66, 127, 128, 252, 253, 254, 300]


def configs(tier):
    if tier == "quick":
        return [{"name": "sb4096", "sb": 4096, "lens": data_lens, "atts": ATTS_QUICK, "maxfault": 0,
                 "mixes": [0, 1, 2, 4]},
                # the limit must also hold on the path a single-packet message takes after ENOBUFS (it is re-sent fragmented)
                {"name": "sb4096-faults", "sb": 4096, "lens": data_lens, "atts": [63, 64, 65], "maxfault": 2, "mixes": [2]}]
    return [
        {"name": "sb4096-all", "sb": 4096, "lens": data_lens, "atts": list(range(0, 301)), "maxfault": 0,
         "mixes": [0, 1, 2, 3, 4]},
        {"name": "sys", "sb": None, "lens": data_lens, "atts": ATTS_QUICK, "maxfault": 0, "mixes": [0, 1, 2]},
        {"name": "sb4096-faults", "sb": 4096, "lens": data_lens, "atts": [62, 63, 64, 65], "maxfault": 3,
         "mixes": [2]},
    ]


def run(tier):
    res = fragcheck.campaign("C15", configs(tier), max_trace_cases=2000 if tier == "quick" else 8000)
    res["assumptions"] = ["premise K3: sendmsg with more than 253 descriptors fails with EINVAL",
                          "premise K2: descriptors beyond the receiver's control buffer are dropped by the kernel"]
    return res


def replay(rp):
    return fragcheck.replay_one(rp)
