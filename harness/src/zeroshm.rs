//! C18: zero-length and odd-length regions at both public API levels, with the ledger hooks on.
//! Each case runs in this (sacrificial) process: an abort is data for the driver.
//! stdin: {"id":N,"level":"platform"|"ipc","how":"bytes"|"byte","len":L}

use crate::common::*;
use ipc_channel::ipc::{self, IpcSharedMemory};
use ipc_channel::platform::{self, OsIpcSharedMemory};
use serde_json::json;

pub fn run() {
    verif::init();
    for c in read_json_lines() {
        let id = geti(&c, "id");
        out_line(&json!({"begin": id}));
        let len = geti(&c, "len") as usize;
        let want = if gets(&c, "how") == "byte" { vec![0x5a; len] } else { payload(id as u64, len) };
        let mut ok = true;
        let mut why = String::new();
        let fds_before = list_fds().len() as i64;
        let maps_before = list_shared_maps().len() as i64;
        if gets(&c, "level") == "platform" {
            let m = if gets(&c, "how") == "byte" { OsIpcSharedMemory::from_byte(0x5a, len) } else { OsIpcSharedMemory::from_bytes(&want) };
            if &m[..] != &want[..] {
                ok = false;
                why = "creator reads different bytes".into();
            }
            let cl = m.clone();
            if &cl[..] != &want[..] {
                ok = false;
                why = "clone reads different bytes".into();
            }
            let (tx, rx) = platform::channel().unwrap();
            tx.send(&[1, 2, 3], vec![], vec![m]).unwrap();
            match rx.recv() {
                Ok((_, _, regions)) => {
                    if regions.len() != 1 || &regions[0][..] != &want[..] {
                        ok = false;
                        why = format!("received region differs ({} regions)", regions.len());
                    }
                },
                Err(e) => {
                    ok = false;
                    why = format!("recv failed {:?}", e);
                },
            }
            drop(cl);
        } else {
            let m = if gets(&c, "how") == "byte" { IpcSharedMemory::from_byte(0x5a, len) } else { IpcSharedMemory::from_bytes(&want) };
            if &m[..] != &want[..] {
                ok = false;
                why = "creator reads different bytes".into();
            }
            let (tx, rx) = ipc::channel::<(IpcSharedMemory, IpcSharedMemory)>().unwrap();
            tx.send((m.clone(), m)).unwrap();
            match rx.recv() {
                Ok((a, b)) => {
                    if &a[..] != &want[..] || &b[..] != &want[..] {
                        ok = false;
                        why = "received region differs".into();
                    }
                },
                Err(e) => {
                    ok = false;
                    why = format!("recv failed {:?}", e);
                },
            }
        }
        // every handle of this case is gone: the ledger must be empty and /proc must agree (C11 for these shapes)
        let fd_delta = list_fds().len() as i64 - fds_before;
        let map_delta = list_shared_maps().len() as i64 - maps_before;
        verif::emit("quiesce", &[("fd", fd_delta), ("len", map_delta)]);
        if ok && (fd_delta != 0 || map_delta != 0) {
            ok = false;
            why = format!("descriptors/mappings left behind after every handle was dropped: fd {:+} map {:+}", fd_delta, map_delta);
        }
        out_line(&json!({"id": id, "ok": ok, "why": why}));
    }
}
