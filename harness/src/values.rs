//! C01 at the public API: typed channels carrying a family of serde values, and bytes channels
//! carrying payloads of given lengths, must return exactly what was sent.
//!
//! Input (stdin, one JSON line): {"seed":S, "nvalues":N, "lens":[...], "maxbytes":M}
//! Output: one JSON line {"values":N, "bytes":K, "failures":[...]}.

use crate::common::*;
use ipc_channel::ipc;
use rand::rngs::StdRng;
use rand::{Rng, SeedableRng};
use serde::{Deserialize, Serialize};
use serde_json::json;
use std::collections::BTreeMap;

#[derive(Serialize, Deserialize, Debug, Clone)]
pub enum Val {
    Unit,
    Bool(bool),
    I(i64),
    U8(u8),
    U128(u128),
    F(f64),
    F32(f32),
    Ch(char),
    S(String),
    Bytes(Vec<u8>),
    Opt(Option<Box<Val>>),
    Tup(Box<Val>, Box<Val>),
    List(Vec<Val>),
    Map(BTreeMap<String, Val>),
    Struct {
        a: u32,
        b: Option<String>,
        c: Vec<u16>,
        d: Box<Val>,
    },
    Newtype(Wrapper),
    E(Small),
}

#[derive(Serialize, Deserialize, Debug, Clone, PartialEq)]
pub struct Wrapper(pub i32, pub (u8, u64));

#[derive(Serialize, Deserialize, Debug, Clone, PartialEq)]
pub enum Small {
    A,
    B(u8),
    C { x: i16, y: String },
}

/// Structural equality with floats compared by bit pattern.
pub fn same(a: &Val, b: &Val) -> bool {
    use Val::*;
    match (a, b) {
        (Unit, Unit) => true,
        (Bool(x), Bool(y)) => x == y,
        (I(x), I(y)) => x == y,
        (U8(x), U8(y)) => x == y,
        (U128(x), U128(y)) => x == y,
        (F(x), F(y)) => x.to_bits() == y.to_bits(),
        (F32(x), F32(y)) => x.to_bits() == y.to_bits(),
        (Ch(x), Ch(y)) => x == y,
        (S(x), S(y)) => x == y,
        (Bytes(x), Bytes(y)) => x == y,
        (Opt(x), Opt(y)) => match (x, y) {
            (None, None) => true,
            (Some(p), Some(q)) => same(p, q),
            _ => false,
        },
        (Tup(a1, a2), Tup(b1, b2)) => same(a1, b1) && same(a2, b2),
        (List(x), List(y)) => x.len() == y.len() && x.iter().zip(y).all(|(p, q)| same(p, q)),
        (Map(x), Map(y)) => {
            x.len() == y.len()
                && x.iter()
                    .zip(y)
                    .all(|((k1, v1), (k2, v2))| k1 == k2 && same(v1, v2))
        },
        (
            Struct { a, b, c, d },
            Struct {
                a: a2,
                b: b2,
                c: c2,
                d: d2,
            },
        ) => a == a2 && b == b2 && c == c2 && same(d, d2),
        (Newtype(x), Newtype(y)) => x == y,
        (E(x), E(y)) => x == y,
        _ => false,
    }
}

fn gen_string(rng: &mut StdRng, max: usize) -> String {
    let n = rng.gen_range(0..=max);
    (0..n)
        .map(|_| match rng.gen_range(0..10) {
            0 => 'é',
            1 => '\u{1F600}',
            2 => '\0',
            _ => (b'a' + rng.gen_range(0..26u8)) as char,
        })
        .collect()
}

pub fn gen(rng: &mut StdRng, depth: u32, budget: usize) -> Val {
    let leaf = depth == 0 || rng.gen_range(0..3) == 0;
    if leaf {
        match rng.gen_range(0..12) {
            0 => Val::Unit,
            1 => Val::Bool(rng.gen()),
            2 => Val::I(*[i64::MIN, -1, 0, 1, i64::MAX, rng.gen()].get(rng.gen_range(0..6)).unwrap()),
            3 => Val::U8(rng.gen()),
            4 => Val::U128(rng.gen()),
            5 => Val::F(f64::from_bits(match rng.gen_range(0..5) {
                0 => f64::NAN.to_bits() | 1,
                1 => (-0.0f64).to_bits(),
                2 => f64::INFINITY.to_bits(),
                _ => rng.gen(),
            })),
            6 => Val::F32(f32::from_bits(rng.gen())),
            7 => Val::Ch(char::from_u32(rng.gen_range(0..0xD800)).unwrap_or('x')),
            8 => Val::S(gen_string(rng, budget.min(200))),
            9 => {
                let n = rng.gen_range(0..=budget);
                Val::Bytes((0..n).map(|i| (i * 7 + 3) as u8).collect())
            },
            10 => Val::Newtype(Wrapper(rng.gen(), (rng.gen(), rng.gen()))),
            _ => Val::E(match rng.gen_range(0..3) {
                0 => Small::A,
                1 => Small::B(rng.gen()),
                _ => Small::C {
                    x: rng.gen(),
                    y: gen_string(rng, 12),
                },
            }),
        }
    } else {
        match rng.gen_range(0..5) {
            0 => Val::Opt(if rng.gen() {
                Some(Box::new(gen(rng, depth - 1, budget / 2)))
            } else {
                None
            }),
            1 => Val::Tup(
                Box::new(gen(rng, depth - 1, budget / 2)),
                Box::new(gen(rng, depth - 1, budget / 2)),
            ),
            2 => {
                let n = rng.gen_range(0..5);
                Val::List((0..n).map(|_| gen(rng, depth - 1, budget / 4)).collect())
            },
            3 => {
                let n = rng.gen_range(0..4);
                Val::Map(
                    (0..n)
                        .map(|_| (gen_string(rng, 8), gen(rng, depth - 1, budget / 4)))
                        .collect(),
                )
            },
            _ => Val::Struct {
                a: rng.gen(),
                b: if rng.gen() {
                    Some(gen_string(rng, 20))
                } else {
                    None
                },
                c: (0..rng.gen_range(0..6)).map(|_| rng.gen()).collect(),
                d: Box::new(gen(rng, depth - 1, budget / 2)),
            },
        }
    }
}

/// A value whose serialisation writes a few bytes and then fails.
struct HalfFail(u64);

impl Serialize for HalfFail {
    fn serialize<S: serde::Serializer>(&self, serializer: S) -> Result<S::Ok, S::Error> {
        use serde::ser::{Error, SerializeTuple};
        let mut t = serializer.serialize_tuple(3)?;
        t.serialize_element(&self.0)?;
        t.serialize_element(&0xdead_beefu32)?;
        Err(S::Error::custom("scripted failure"))
    }
}

impl<'de> Deserialize<'de> for HalfFail {
    fn deserialize<D: serde::Deserializer<'de>>(_d: D) -> Result<Self, D::Error> {
        Err(serde::de::Error::custom("send-only"))
    }
}

pub fn run() {
    verif::init();
    for job in read_json_lines() {
        let seed = geti(&job, "seed") as u64;
        let nvalues = geti(&job, "nvalues") as usize;
        let maxbytes = geti(&job, "maxbytes").max(64) as usize;
        let lens: Vec<usize> = job
            .get("lens")
            .and_then(|v| v.as_array())
            .map(|a| a.iter().map(|x| x.as_u64().unwrap() as usize).collect())
            .unwrap_or_default();
        let mut failures = Vec::new();
        let mut rng = StdRng::seed_from_u64(seed);

        // typed channel: one receiver thread, values sent in order
        let (tx, rx) = ipc::channel::<Val>().unwrap();
        let vals: Vec<Val> = (0..nvalues)
            .map(|i| {
                // a few large ones so that typed values also cross packet boundaries
                let budget = if i % 17 == 0 { maxbytes } else { 300 };
                gen(&mut rng, 4, budget)
            })
            .collect();
        let expect = vals.clone();
        let h = std::thread::spawn(move || {
            let mut bad = Vec::new();
            for (i, e) in expect.iter().enumerate() {
                match rx.recv() {
                    Ok(v) => {
                        if !same(&v, e) {
                            bad.push(json!({"kind": "value", "index": i,
                                            "sent": format!("{:.300?}", e), "got": format!("{:.300?}", v)}));
                        }
                    },
                    Err(err) => {
                        bad.push(json!({"kind": "value-recv-error", "index": i, "error": format!("{:?}", err)}));
                        break;
                    },
                }
            }
            bad
        });
        // sends that fail on the same thread must leave no trace in the following ones:
        // a channel whose receiver is gone, and a value whose serialisation fails half-way
        let (dead_tx, dead_rx) = ipc::channel::<Val>().unwrap();
        drop(dead_rx);
        let (fail_tx, _fail_rx) = ipc::channel::<HalfFail>().unwrap();
        for (i, v) in vals.into_iter().enumerate() {
            if i % 9 == 4 {
                if dead_tx.send(v.clone()).is_ok() {
                    failures.push(json!({"kind": "send-to-dropped-receiver-succeeded", "index": i}));
                }
            }
            if i % 13 == 6 {
                if fail_tx.send(HalfFail(i as u64)).is_ok() {
                    failures.push(json!({"kind": "failing-serialisation-accepted", "index": i}));
                }
            }
            if let Err(e) = tx.send(v) {
                failures.push(json!({"kind": "value-send-error", "index": i, "error": format!("{:?}", e)}));
                break;
            }
        }
        drop(tx);
        match with_watchdog(60_000, move || h.join()) {
            Ok(Ok(Ok(bad))) => failures.extend(bad),
            Ok(_) => failures.push(json!({"kind": "receiver-panicked"})),
            Err(()) => failures.push(json!({"kind": "receiver-hang"})),
        }

        // bytes channel at the given lengths
        let (btx, brx) = ipc::bytes_channel().unwrap();
        let lens2 = lens.clone();
        let h = std::thread::spawn(move || {
            let mut bad = Vec::new();
            for (i, &n) in lens2.iter().enumerate() {
                match brx.recv() {
                    Ok(d) => {
                        let want = payload(seed + i as u64, n);
                        if d != want {
                            bad.push(json!({"kind": "bytes", "len": n, "got_len": d.len(),
                                            "first_diff": first_diff(&d, &want)}));
                        }
                    },
                    Err(err) => {
                        bad.push(json!({"kind": "bytes-recv-error", "len": n, "error": format!("{:?}", err)}));
                        break;
                    },
                }
            }
            bad
        });
        for (i, &n) in lens.iter().enumerate() {
            let d = payload(seed + i as u64, n);
            if let Err(e) = btx.send(&d) {
                failures.push(json!({"kind": "bytes-send-error", "len": n, "error": format!("{:?}", e)}));
                break;
            }
        }
        drop(btx);
        match with_watchdog(120_000, move || h.join()) {
            Ok(Ok(Ok(bad))) => failures.extend(bad),
            Ok(_) => failures.push(json!({"kind": "bytes-receiver-panicked"})),
            Err(()) => failures.push(json!({"kind": "bytes-receiver-hang"})),
        }
        out_line(&json!({"values": nvalues, "bytes": lens.len(), "failures": failures}));
    }
}
