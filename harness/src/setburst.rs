//! C06, bursts beyond what gated schedules can carry: M members, K messages queued on each before the set looks for the
//! first time (the senders stay alive or drop, per case), then select() until everything has been reported. This is the
//! ReceiverSet.tla behaviour "all sends, then selects" at sizes that reach the code's real capacities (events buffer,
//! any per-call bound): every message exactly once, per member in order, closures after the last message, and select
//! does not go on blocking while something is pending.
//! stdin: {"id":N,"members":M,"msgs":K,"close":bool,"len":L}

use crate::common::*;
use ipc_channel::ipc::{self, IpcReceiverSet, IpcSelectionResult};
use serde_json::json;
use std::collections::HashMap;
use std::sync::mpsc;
use std::time::Duration;

pub fn run() {
    raise_nofile();
    verif::init();
    for c in read_json_lines() {
        let id = geti(&c, "id");
        let members = geti(&c, "members") as usize;
        let msgs = geti(&c, "msgs") as usize;
        let close = c.get("close").and_then(|b| b.as_bool()).unwrap_or(false);
        let len = geti(&c, "len").max(8) as usize;
        out_line(&json!({"begin": id}));
        let mut set = IpcReceiverSet::new().unwrap();
        let mut senders = Vec::new();
        let mut ids = HashMap::new();
        for m in 0..members {
            let (tx, rx) = ipc::channel::<Vec<u8>>().unwrap();
            for j in 0..msgs {
                tx.send(payload((m * 1000 + j) as u64, len)).unwrap();
            }
            ids.insert(set.add(rx).unwrap(), m);
            senders.push(tx);
        }
        if close {
            senders.clear();
        }
        let want = members * msgs + if close { members } else { 0 };
        let (rtx, rrx) = mpsc::channel();
        let h = std::thread::spawn(move || {
            let mut next = vec![0usize; members];
            let mut closed = vec![false; members];
            let mut seen = 0;
            let mut why = String::new();
            while seen < want && why.is_empty() {
                let rs = match set.select() {
                    Ok(r) => r,
                    Err(e) => {
                        why = format!("select failed: {:?}", e);
                        break;
                    },
                };
                for r in rs {
                    seen += 1;
                    match r {
                        IpcSelectionResult::MessageReceived(rid, m) => {
                            let mem = match ids.get(&rid) {
                                Some(x) => *x,
                                None => {
                                    why = format!("message with unknown id {}", rid);
                                    break;
                                },
                            };
                            match m.to::<Vec<u8>>() {
                                Ok(d) => {
                                    let tag = u64::from_le_bytes(d[..8].try_into().unwrap()) as usize;
                                    if closed[mem] {
                                        why = format!("member {}: message after its closure", mem);
                                    } else if tag != mem * 1000 + next[mem] || d != payload(tag as u64, d.len()) {
                                        why = format!("member {}: message {} where {} is due (or altered bytes)", mem, tag, mem * 1000 + next[mem]);
                                    }
                                    next[mem] += 1;
                                },
                                Err(e) => why = format!("undecodable message: {:?}", e),
                            }
                        },
                        IpcSelectionResult::ChannelClosed(rid) => match ids.get(&rid) {
                            Some(&mem) if !closed[mem] && next[mem] == msgs && close => closed[mem] = true,
                            Some(&mem) => why = format!("member {}: closure reported early, twice or although its sender is alive ({} of {} messages seen)", mem, next[mem], msgs),
                            None => why = format!("closure with unknown id {}", rid),
                        },
                    }
                }
            }
            let _ = rtx.send((seen, why, next));
            set
        });
        let verdict = match rrx.recv_timeout(Duration::from_secs(10)) {
            Ok((seen, why, _)) if why.is_empty() => json!({"id": id, "ok": true, "seen": seen}),
            Ok((seen, why, _)) => json!({"id": id, "ok": false, "seen": seen, "why": why}),
            Err(_) => json!({"id": id, "ok": false, "hang": true,
                "why": "select went on blocking although messages or closures were pending (10 s)"}),
        };
        let hung = verdict.get("hang").is_some();
        out_line(&verdict);
        if hung {
            // the selecting thread cannot be recovered: end the process, the driver goes on behind this case
            std::process::exit(3);
        }
        let _ = h.join();
        drop(senders);
    }
}
