mod common;
#[cfg(not(feature = "inprocess"))]
mod frag;
#[cfg(not(feature = "inprocess"))]
mod sched;
#[cfg(not(feature = "inprocess"))]
mod zeroshm;
#[cfg(not(feature = "inprocess"))]
mod sigwait;
mod setburst;
#[cfg(not(feature = "inprocess"))]
mod setsched;
mod values;
mod chan;
mod script;
mod routerrole;
mod oneshot;
mod fifo;
mod nrecv;
#[cfg(feature = "async")]
mod asyncrole;

use serde_json::json;

fn main() {
    let args: Vec<String> = std::env::args().collect();
    let role = args.get(1).map(|s| s.as_str()).unwrap_or("");
    match role {
        #[cfg(not(feature = "inprocess"))]
        "consts" => {
            // consts <sb>... : what the code computes for each send-buffer size
            let mut rows = Vec::new();
            for a in &args[2..] {
                let sb: usize = a.parse().unwrap();
                let c = ipc_channel::platform::verif_constants(sb);
                rows.push(json!({"sb": sb, "sys": c[0], "maxfrag": c[1], "frag": c[2],
                                 "first": c[3], "cmsgcap": c[4], "reserved": c[5], "evcap": c[6]}));
            }
            println!("{}", json!(rows));
        },
        #[cfg(not(feature = "inprocess"))]
        "frag" => frag::run(),
        #[cfg(not(feature = "inprocess"))]
        "sched" => sched::run(),
        #[cfg(not(feature = "inprocess"))]
        "setsched" => setsched::run(),
        #[cfg(not(feature = "inprocess"))]
        "zeroshm" => zeroshm::run(),
        #[cfg(not(feature = "inprocess"))]
        "sigwait" => sigwait::run(),
        #[cfg(not(feature = "inprocess"))]
        "sched-child" => sched::child_main(&args[2..]),
        "setburst" => setburst::run(),
        "values" => values::run(),
        "chan" => chan::run(args.get(2).map(|s| s.as_str()).unwrap_or("thread")),
        "agent" => chan::agent_main(&args[2]),
        "lsfd" => chan::lsfd_main(),
        // an unrelated child that holds whatever it inherited until it is killed
        "idle" => {
            println!("r");
            std::thread::sleep(std::time::Duration::from_secs(120))
        },
        "script" => script::run(),
        "router" => routerrole::run(),
        "oneshot" => match args.get(2).map(|s| s.as_str()).unwrap_or("thread") {
            "forked" => oneshot::run_forked(),
            mode => oneshot::run(mode),
        },
        "oneshot-client" => oneshot::client_main(),
        "nrecv" => nrecv::run(),
        "fifo" => fifo::run(),
        "fifo-child" => fifo::child_main(&args[2..]),
        #[cfg(feature = "async")]
        "async" => asyncrole::run(),
        _ => {
            eprintln!("usage: vharness <role> ...");
            std::process::exit(2);
        },
    }
}
