//! B2: gated replay of `Transport.tla` schedules.
//!
//! `vharness sched`: stdin = one case per line
//!   {"id":N, "msgs":[[2,1],[3]], "plan":["recv",..], "procs":[2], "sched":[{"a":1,"k":"sendmsg"},..],
//!    "rlog":[..], "delivered":[[s,j],..]}
//! Sender s is a thread of this process, or (if listed in "procs") a child process; actor 0 is the
//! receiving thread. Every actor stops at each system-call hook; the controller releases exactly
//! the actor the schedule names, one system call at a time, so the interleaving executed is the
//! one TLC produced. "kill" kills the child process where it is parked.

use crate::common::*;
use ipc_channel::ipc::{self, IpcError, IpcOneShotServer, IpcReceiver, IpcSender, TryRecvError};
use serde_json::{json, Value};
use std::collections::HashMap;
use std::io::{BufRead, BufReader, Write};
use std::process::{Child, ChildStdin, ChildStdout, Command, Stdio};
use std::sync::{Arc, Condvar, Mutex};
use std::time::{Duration, Instant};

fn kind_of(site: &str) -> &'static str {
    match site {
        "sendmsg.call" => "sendmsg",
        "send.call" => "send",
        "socketpair.call" => "socketpair",
        "close.call" => "close",
        "recvmsg.call" => "recvmsg",
        "recv.call" => "recv",
        "fcntl.call" => "fcntl",
        "poll.call" => "poll",
        "set.wait.call" => "wait",
        "set.add" => "add",
        _ => "other",
    }
}

static POLL_RELEASED: Mutex<Option<Instant>> = Mutex::new(None);

#[derive(Clone, Debug, PartialEq)]
pub enum St {
    Running,
    Parked(&'static str, u64),
    Finished,
}

#[derive(Default)]
struct Table {
    st: HashMap<i64, St>,
    grants: HashMap<i64, u64>,
    tids: HashMap<i64, i64>,
    free: bool,
    gen: u64,
}

#[derive(Clone)]
pub struct Gates(Arc<(Mutex<Table>, Condvar)>);

impl Gates {
    pub fn new() -> Gates {
        Gates(Arc::new((Mutex::new(Table::default()), Condvar::new())))
    }

    /// Install as the process-wide gate hook (threads identify themselves by their actor id).
    pub fn install(&self) {
        let g = self.clone();
        verif::set_gate_hook(Some(Box::new(move |site, _| {
            let a = verif::actor();
            g.park(a, site);
        })));
    }

    fn park(&self, a: i64, site: &str) {
        let (m, cv) = &*self.0;
        let mut t = m.lock().unwrap();
        if t.free || !t.st.contains_key(&a) {
            return;
        }
        t.gen += 1;
        let gen = t.gen;
        t.st.insert(a, St::Parked(kind_of(site), gen));
        cv.notify_all();
        loop {
            if t.free {
                break;
            }
            let g = t.grants.get(&a).copied().unwrap_or(0);
            if g > 0 {
                t.grants.insert(a, g - 1);
                break;
            }
            t = cv.wait(t).unwrap();
        }
        t.st.insert(a, St::Running);
        cv.notify_all();
        if a == 0 && kind_of(site) == "poll" {
            // the receiving thread is about to enter poll(): the timed wait starts now (time spent parked at the
            // gate must not count towards "waited at least the requested time")
            // (the first poll of the call: an implementation may poll again, e.g. after EINTR)
            let mut p = POLL_RELEASED.lock().unwrap();
            if p.is_none() {
                *p = Some(Instant::now());
            }
        }
    }

    pub fn register(&self, a: i64) {
        let (m, _) = &*self.0;
        m.lock().unwrap().st.insert(a, St::Running);
    }

    pub fn tid_of(&self, a: i64) -> Option<i64> {
        let (m, _) = &*self.0;
        m.lock().unwrap().tids.get(&a).copied()
    }

    /// Called by the actor's own thread: lets the controller look it up in /proc.
    pub fn set_tid(&self, a: i64) {
        let tid = unsafe { libc::syscall(libc::SYS_gettid) } as i64;
        let (m, _) = &*self.0;
        m.lock().unwrap().tids.insert(a, tid);
    }

    /// Is actor `a` asleep inside poll/recvmsg/recvfrom/sendmsg/sendto/epoll_wait?
    pub fn syscall_nr(&self, a: i64) -> i64 {
        let tid = match self.tid_of(a) {
            Some(t) => t,
            None => return -1,
        };
        std::fs::read_to_string(format!("/proc/self/task/{}/syscall", tid))
            .ok()
            .and_then(|s| s.split_whitespace().next().and_then(|x| x.parse::<i64>().ok()))
            .unwrap_or(-1)
    }

    fn in_kernel(&self, a: i64) -> bool {
        let tid = {
            let (m, _) = &*self.0;
            match m.lock().unwrap().tids.get(&a) {
                Some(t) => *t,
                None => return false,
            }
        };
        match std::fs::read_to_string(format!("/proc/self/task/{}/syscall", tid)) {
            Ok(s) => {
                let nr = s.split_whitespace().next().and_then(|x| x.parse::<i64>().ok());
                matches!(nr, Some(7) | Some(271) | Some(441) | Some(47) | Some(45) | Some(46) | Some(44) | Some(232) | Some(281))
            },
            Err(_) => false,
        }
    }

    /// Wait until `a` is parked at a new gate, finished, or asleep in the kernel.
    pub fn wait_quiescent(&self, a: i64, not_gen: u64, ms: u64) -> Option<St> {
        let deadline = Instant::now() + Duration::from_millis(ms);
        loop {
            if let Some(st) = self.wait_settled(a, not_gen, 1) {
                return Some(st);
            }
            // not parked: running, or sleeping in a system call
            let running = {
                let (m, _) = &*self.0;
                matches!(m.lock().unwrap().st.get(&a), Some(St::Running))
            };
            if running && self.in_kernel(a) {
                // look twice: it must stay there
                std::thread::sleep(Duration::from_micros(300));
                if self.in_kernel(a) {
                    return Some(St::Running);
                }
            }
            if Instant::now() >= deadline {
                return None;
            }
        }
    }

    pub fn finished(&self, a: i64) {
        let (m, cv) = &*self.0;
        m.lock().unwrap().st.insert(a, St::Finished);
        cv.notify_all();
    }

    pub fn free_all(&self) {
        let (m, cv) = &*self.0;
        m.lock().unwrap().free = true;
        cv.notify_all();
    }

    pub fn reset(&self) {
        let (m, _) = &*self.0;
        let mut t = m.lock().unwrap();
        t.st.clear();
        t.grants.clear();
        t.tids.clear();
        t.free = false;
    }

    /// Wait until actor `a` is parked or finished (None on timeout: it is inside the kernel).
    pub fn wait_settled(&self, a: i64, not_gen: u64, ms: u64) -> Option<St> {
        let (m, cv) = &*self.0;
        let deadline = Instant::now() + Duration::from_millis(ms);
        let mut t = m.lock().unwrap();
        loop {
            match t.st.get(&a) {
                Some(St::Parked(k, g)) if *g != not_gen => return Some(St::Parked(k, *g)),
                Some(St::Finished) => return Some(St::Finished),
                _ => {},
            }
            let now = Instant::now();
            if now >= deadline {
                return None;
            }
            t = cv.wait_timeout(t, deadline - now).unwrap().0;
        }
    }

    pub fn grant(&self, a: i64) {
        let (m, cv) = &*self.0;
        let mut t = m.lock().unwrap();
        *t.grants.entry(a).or_insert(0) += 1;
        cv.notify_all();
    }
}

// ---------------------------------------------------------------------------------------------
// child process actor (a sender that can be killed)

pub struct ProcActor {
    pub child: Child,
    pub stdin: ChildStdin,
    pub stdout: BufReader<ChildStdout>,
    pub parked: Option<String>,
    pub finished: bool,
    pub sends: Vec<(i64, bool)>,
}

impl ProcActor {
    /// Read until the child reports being parked ("P kind") or finished ("F").
    pub fn settle(&mut self) -> Option<String> {
        if self.finished {
            return None;
        }
        if self.parked.is_some() {
            return self.parked.clone();
        }
        let mut line = String::new();
        loop {
            line.clear();
            match self.stdout.read_line(&mut line) {
                Ok(0) | Err(_) => {
                    self.finished = true;
                    return None;
                },
                Ok(_) => {
                    let l = line.trim();
                    if let Some(k) = l.strip_prefix("P ") {
                        self.parked = Some(k.to_string());
                        return self.parked.clone();
                    }
                    if let Some(r) = l.strip_prefix("S ") {
                        let mut it = r.split_whitespace();
                        let j = it.next().and_then(|x| x.parse().ok()).unwrap_or(0);
                        let ok = it.next() == Some("1");
                        self.sends.push((j, ok));
                        continue;
                    }
                    if l == "F" {
                        self.finished = true;
                        return None;
                    }
                },
            }
        }
    }

    pub fn grant(&mut self) {
        self.parked = None;
        let _ = self.stdin.write_all(b"G\n");
        let _ = self.stdin.flush();
    }

    pub fn free(&mut self) {
        self.parked = None;
        let _ = self.stdin.write_all(b"FREE\n");
        let _ = self.stdin.flush();
    }

    pub fn kill(&mut self) {
        let _ = self.child.kill();
        let _ = self.child.wait();
        self.finished = true;
    }
}

/// Spawn `sched-child` for sender `s` and hand it `tx` (its bootstrap runs ungated).
pub fn spawn_child_sender(s: i64, npks: &[i64], tx: IpcSender<SMsg>, attach: bool) -> ProcActor {
    let (server, name) = IpcOneShotServer::<IpcSender<IpcSender<SMsg>>>::new().unwrap();
    let exe = std::env::current_exe().unwrap();
    let mut child = Command::new(exe)
        .arg("sched-child")
        .arg(&name)
        .arg(s.to_string())
        .arg(npks.iter().map(|x| x.to_string()).collect::<Vec<_>>().join(","))
        .arg(if attach { "attach" } else { "plain" })
        .stdin(Stdio::piped())
        .stdout(Stdio::piped())
        .spawn()
        .expect("spawn sched-child");
    let stdin = child.stdin.take().unwrap();
    let stdout = BufReader::new(child.stdout.take().unwrap());
    let (_r, btx) = server.accept().expect("accept");
    btx.send(tx).unwrap();
    drop(btx);
    ProcActor {
        child,
        stdin,
        stdout,
        parked: None,
        finished: false,
        sends: Vec::new(),
    }
}

/// What travels on the channel under test: the payload and, for the multi-packet messages of a plan with
/// `attach`, a clone of the sending handle itself (an attachment that rides in the first packet).
pub type SMsg = (Vec<u8>, Option<ipc_channel::ipc::OpaqueIpcSender>);

pub fn make_msg(s: i64, j: i64, npk: i64, attach: bool, tx: &IpcSender<SMsg>) -> SMsg {
    let att = if attach && npk >= 2 { Some(tx.clone().to_opaque()) } else { None };
    (msg_bytes(s, j, npk), att)
}

pub fn msg_len(npk: i64) -> usize {
    let c = ipc_channel::platform::verif_constants(4096);
    let (maxfrag, frag) = (c[1], c[2]);
    match npk {
        1 => 100,
        2 => maxfrag + 100,
        n => maxfrag + (n as usize - 2) * frag + 100,
    }
}

pub fn msg_bytes(s: i64, j: i64, npk: i64) -> Vec<u8> {
    // 8 bytes of the payload are bincode's length prefix
    payload((s * 1000 + j) as u64, msg_len(npk) - 8)
}

/// `vharness sched-child <server-name> <s> <npk,npk,..>`: sends its messages, parking at every
/// system-call hook until the parent says go.
pub fn child_main(args: &[String]) {
    die_with_parent();
    verif::init();
    // the library must not rely on SIGPIPE being ignored (the Rust runtime ignores it; a C host program does not)
    unsafe {
        libc::signal(libc::SIGPIPE, libc::SIG_DFL);
    }

    let name = args[0].clone();
    let s: i64 = args[1].parse().unwrap();
    let npks: Vec<i64> = args[2].split(',').filter(|x| !x.is_empty()).map(|x| x.parse().unwrap()).collect();
    let attach = args.get(3).map(|a| a == "attach").unwrap_or(false);
    let _ = ipc_channel::platform::verif_constants(4096);
    // bootstrap: give the parent a channel on which it hands us our sender handle
    let (btx, brx) = ipc::channel::<IpcSender<SMsg>>().unwrap();
    {
        let boot: IpcSender<IpcSender<IpcSender<SMsg>>> = IpcSender::connect(name).unwrap();
        boot.send(btx).unwrap();
    }
    let tx = brx.recv().unwrap();
    drop(brx);
    verif::set_actor(s);
    let free = Arc::new(std::sync::atomic::AtomicBool::new(false));
    let f2 = free.clone();
    verif::set_gate_hook(Some(Box::new(move |site, _| {
        if f2.load(std::sync::atomic::Ordering::SeqCst) {
            return;
        }
        let out = std::io::stdout();
        {
            let mut l = out.lock();
            let _ = writeln!(l, "P {}", kind_of(site));
            let _ = l.flush();
        }
        let mut line = String::new();
        let _ = std::io::stdin().lock().read_line(&mut line);
        if line.trim() == "FREE" || line.is_empty() {
            f2.store(true, std::sync::atomic::Ordering::SeqCst);
        }
    })));
    for (j, npk) in npks.iter().enumerate() {
        let ok = tx.send(make_msg(s, j as i64 + 1, *npk, attach, &tx)).is_ok();
        println!("S {} {}", j + 1, ok as i32);
    }
    drop(tx);
    free.store(true, std::sync::atomic::Ordering::SeqCst);
    println!("F");
}

// ---------------------------------------------------------------------------------------------

enum Actor {
    Thread(std::thread::JoinHandle<()>),
    Proc(ProcActor),
}

fn recv_result(r: Result<SMsg, TryRecvError>) -> Value {
    match r {
        Ok((d, att)) => {
            // an attached clone of the sending handle is let go at once
            drop(att);
            let tag = if d.len() >= 8 {
                u64::from_le_bytes(d[..8].try_into().unwrap())
            } else {
                0
            };
            let (s, j) = ((tag / 1000) as i64, (tag % 1000) as i64);
            json!({"res": "msg", "m": [s, j], "len": d.len(), "intact": d == payload(tag, d.len())})
        },
        Err(TryRecvError::Empty) => json!({"res": "empty"}),
        Err(TryRecvError::IpcError(IpcError::Disconnected)) => json!({"res": "disc"}),
        Err(e) => json!({"res": "error", "detail": format!("{:?}", e)}),
    }
}

pub fn run() {
    raise_nofile();
    verif::init();
    // the library must not rely on SIGPIPE being ignored (the Rust runtime ignores it; a C host program does not)
    unsafe {
        libc::signal(libc::SIGPIPE, libc::SIG_DFL);
    }

    let _ = ipc_channel::platform::verif_constants(4096);
    let gates = Gates::new();
    gates.install();
    for case in read_json_lines() {
        let id = geti(&case, "id");
        out_line(&json!({"begin": id}));
        let v = run_case(&case, &gates);
        out_line(&v);
    }
}

fn run_case(case: &Value, gates: &Gates) -> Value {
    let id = geti(case, "id");
    gates.reset();
    let msgs: Vec<Vec<i64>> = case["msgs"]
        .as_array()
        .map(|a| {
            a.iter()
                .map(|m| m.as_array().map(|x| x.iter().filter_map(|y| y.as_i64()).collect()).unwrap_or_default())
                .collect()
        })
        .unwrap_or_default();
    let plan: Vec<String> = case["plan"]
        .as_array()
        .map(|a| a.iter().map(|x| x.as_str().unwrap_or("recv").to_string()).collect())
        .unwrap_or_default();
    let procs: Vec<i64> = case["procs"]
        .as_array()
        .map(|a| a.iter().filter_map(|x| x.as_i64()).collect())
        .unwrap_or_default();
    let sched = case["sched"].as_array().cloned().unwrap_or_default();
    let attach = case["attach"].as_bool().unwrap_or(false);

    verif::set_actor(-1);
    let (tx, rx) = ipc::channel::<SMsg>().unwrap();
    let mut actors: HashMap<i64, Actor> = HashMap::new();
    let send_results: Arc<Mutex<Vec<(i64, i64, bool)>>> = Arc::new(Mutex::new(Vec::new()));

    // child-process senders first (their bootstrap runs ungated)
    for (i, npks) in msgs.iter().enumerate() {
        let s = i as i64 + 1;
        if !procs.contains(&s) {
            continue;
        }
        actors.insert(s, Actor::Proc(spawn_child_sender(s, npks, tx.clone(), attach)));
    }
    // thread senders
    for (i, npks) in msgs.iter().enumerate() {
        let s = i as i64 + 1;
        if procs.contains(&s) {
            continue;
        }
        // a handle with a descriptor of its own (clones share one): pass a clone through a channel
        let txs = {
            let (htx, hrx) = ipc::channel::<IpcSender<SMsg>>().unwrap();
            htx.send(tx.clone()).unwrap();
            hrx.recv().unwrap()
        };
        let npks = npks.clone();
        let g = gates.clone();
        g.register(s);
        let sres = send_results.clone();
        let h = std::thread::spawn(move || {
            verif::set_actor(s);
            g.set_tid(s);
            for (j, npk) in npks.iter().enumerate() {
                let ok = txs.send(make_msg(s, j as i64 + 1, *npk, attach, &txs)).is_ok();
                sres.lock().unwrap().push((s, j as i64 + 1, ok));
            }
            drop(txs);
            g.finished(s);
        });
        actors.insert(s, Actor::Thread(h));
    }
    drop(tx);
    // receiver thread
    let cur_call = Arc::new(std::sync::atomic::AtomicUsize::new(0));
    let cur_call2 = cur_call.clone();
    let (rtx, rrx) = std::sync::mpsc::channel::<Value>();
    {
        let g = gates.clone();
        g.register(0);
        let plan = plan.clone();
        let tmo: Vec<f64> = case["tmo"]
            .as_array()
            .map(|a| a.iter().map(|x| x.as_f64().unwrap_or(4.0)).collect())
            .unwrap_or_default();
        let h = std::thread::spawn(move || {
            verif::set_actor(0);
            g.set_tid(0);
            let mut rx = Some(rx);
            for (i, mode) in plan.iter().enumerate() {
                if mode == "drop" {
                    // the receiving end goes away: close(); nothing is called afterwards
                    drop(rx.take());
                    break;
                }
                let rx = rx.as_ref().unwrap();
                let d = Duration::from_micros((tmo.get(i).copied().unwrap_or(4.0) * 1000.0) as u64);
                cur_call2.store(i, std::sync::atomic::Ordering::SeqCst);
                let t0 = Instant::now();
                *POLL_RELEASED.lock().unwrap() = None;
                let mut r = match mode.as_str() {
                    "try" => recv_result(rx.try_recv()),
                    "timeout" => recv_result(rx.try_recv_timeout(d)),
                    _ => recv_result(rx.recv().map_err(TryRecvError::IpcError)),
                };
                r["elapsed_us"] = json!(t0.elapsed().as_micros() as u64);
                if let Some(p) = *POLL_RELEASED.lock().unwrap() {
                    r["poll_us"] = json!(p.elapsed().as_micros() as u64);
                }
                r["nb_after"] = json!(-1);
                let _ = rtx.send(r);
            }
            // whatever is still queued (not part of the comparison with the model)
            g.finished(0);
            drop(rx);
        });
        actors.insert(0, Actor::Thread(h));
    }

    // walk the schedule
    let mut matched = true;
    let mut why = String::new();
    let mut last_gen: HashMap<i64, u64> = HashMap::new();
    'sched: for (n, st) in sched.iter().enumerate() {

        let a = geti(st, "a");
        let k = gets(st, "k").to_string();
        match actors.get_mut(&a) {
            None => {
                matched = false;
                why = format!("step {}: no actor {}", n, a);
                break;
            },
            Some(Actor::Proc(p)) => {
                if k == "kill" {
                    // make sure it is parked (between two system calls), then kill it there
                    let _ = p.settle();
                    p.kill();
                    continue;
                }
                let mut guard = 0;
                loop {
                    match p.settle() {
                        None => {
                            matched = false;
                            why = format!("step {}: actor {} finished before a '{}' call", n, a, k);
                            break 'sched;
                        },
                        Some(kind) => {
                            p.grant();
                            if kind == k {
                                // wait until it is parked again or done: the call has been made
                                let _ = p.settle();
                                break;
                            }
                            guard += 1;
                            if guard > 40 {
                                matched = false;
                                why = format!("step {}: actor {} never reached '{}'", n, a, k);
                                break 'sched;
                            }
                        },
                    }
                }
            },
            Some(Actor::Thread(_)) => {
                if k == "wake" || k.starts_with("pollret") {
                    // the actor sleeps in the kernel; the model says it now wakes up (a packet or
                    // a hang-up arrived, or its timeout expired): wait until it is out again
                    let lg = last_gen.get(&a).copied().unwrap_or(0);
                    match gates.wait_settled(a, lg, 5000) {
                        Some(_) => continue,
                        None => {
                            matched = false;
                            why = format!("step {}: actor {} stays asleep in the kernel at '{}'", n, a, k);
                            break 'sched;
                        },
                    }
                }
                let mut guard = 0;
                loop {
                    let lg = last_gen.get(&a).copied().unwrap_or(0);
                    match gates.wait_quiescent(a, lg, 3000) {
                        None | Some(St::Running) => {
                            matched = false;
                            why = format!(
                                "step {}: actor {} is blocked in the kernel (syscall {}) before '{}'",
                                n,
                                a,
                                gates.syscall_nr(a),
                                k
                            );
                            break 'sched;
                        },
                        Some(St::Finished) => {
                            matched = false;
                            why = format!("step {}: actor {} finished before a '{}' call", n, a, k);
                            break 'sched;
                        },
                        Some(St::Parked(kind, gen)) => {
                            last_gen.insert(a, gen);
                            gates.grant(a);
                            // wait until it has passed this gate: parked at the next one, finished,
                            // or asleep inside the system call
                            if gates.wait_quiescent(a, gen, 3000).is_none() {
                                matched = false;
                                why = format!("step {}: actor {} neither parked nor asleep after '{}'", n, a, kind);
                                break 'sched;
                            }
                            if kind == k {
                                break;
                            }
                            guard += 1;
                            if guard > 40 {
                                matched = false;
                                why = format!("step {}: actor {} never reached '{}'", n, a, k);
                                break 'sched;
                            }
                        },
                    }
                }
            },
        }
    }
    // the receive call in progress at the moment the schedule was abandoned (nobody has been released yet)
    let diverged_call: i64 = if matched { -1 } else { cur_call.load(std::sync::atomic::Ordering::SeqCst) as i64 };
    // let everything run to completion
    gates.free_all();
    let mut hang = false;
    let mut calls = Vec::new();
    for a in actors.values_mut() {
        if let Actor::Proc(p) = a {
            if !p.finished {
                p.free();
            }
        }
    }
    let ncalls = plan.iter().position(|m| m == "drop").unwrap_or(plan.len());
    for _ in 0..ncalls {
        match rrx.recv_timeout(Duration::from_secs(10)) {
            Ok(v) => calls.push(v),
            Err(_) => {
                hang = true;
                break;
            },
        }
    }
    let mut hung_sender = false;
    for (s, a) in actors.drain() {
        match a {
            Actor::Thread(h) => {
                if !hang {
                    // a sender must come back too (a send that blocks forever is a violation)
                    if s != 0 {
                        match with_watchdog(10_000, move || h.join()) {
                            Ok(_) => {},
                            Err(()) => hung_sender = true,
                        }
                    } else {
                        let _ = h.join();
                    }
                }
            },
            Actor::Proc(mut p) => {
                // read what it still reports, then reap it
                while !p.finished {
                    if p.settle().is_some() {
                        p.free();
                    }
                }
                for (j, ok) in p.sends.iter() {
                    send_results.lock().unwrap().push((s, *j, *ok));
                }
                let _ = p.child.wait();
            },
        }
    }
    let sends: Vec<Value> = send_results.lock().unwrap().iter().map(|(s, j, ok)| json!([s, j, ok])).collect();
    json!({"id": id, "matched": matched, "why": why, "hang": hang || hung_sender, "calls": calls, "sends": sends,
           "diverged_in_call": if matched { -1 } else { diverged_call }})
}
