//! B2: gated replay of `ReceiverSet.tla` schedules.
//!
//! `vharness setsched`: stdin = one case per line
//!   {"id":N,"msgs":[[1,2],[2],[1]],"prog":[{"op":"add","m":1},..],"sched":[{"a":0,"k":"wait"},..]}
//! Actor m (1..n) is the sender thread of member m's channel, actor 0 the selecting thread.

use crate::common::*;
use crate::sched::{make_msg, spawn_child_sender, Gates, ProcActor, SMsg, St};
use ipc_channel::ipc::{self, IpcReceiverSet, IpcSelectionResult};
use serde_json::{json, Value};
use std::collections::HashMap;
use std::time::Duration;

extern "C" fn on_signal(_: libc::c_int) {}

pub fn run() {
    raise_nofile();
    verif::init();
    // the library must not rely on SIGPIPE being ignored (the Rust runtime ignores it; a C host program does not)
    unsafe {
        libc::signal(libc::SIGPIPE, libc::SIG_DFL);
    }

    let _ = ipc_channel::platform::verif_constants(4096);
    // SIGUSR1 without SA_RESTART: interrupts a blocking epoll_wait
    unsafe {
        let mut sa: libc::sigaction = std::mem::zeroed();
        sa.sa_sigaction = on_signal as usize;
        sa.sa_flags = 0;
        libc::sigaction(libc::SIGUSR1, &sa, std::ptr::null_mut());
    }
    let gates = Gates::new();
    gates.install();
    for case in read_json_lines() {
        let id = geti(&case, "id");
        out_line(&json!({"begin": id}));
        let v = run_case(&case, &gates);
        out_line(&v);
    }
}

fn run_case(case: &Value, gates: &Gates) -> Value {
    let id = geti(case, "id");
    gates.reset();
    verif::set_actor(-1);
    let msgs: Vec<Vec<i64>> = case["msgs"]
        .as_array()
        .map(|a| {
            a.iter()
                .map(|m| m.as_array().map(|x| x.iter().filter_map(|y| y.as_i64()).collect()).unwrap_or_default())
                .collect()
        })
        .unwrap_or_default();
    let prog = case["prog"].as_array().cloned().unwrap_or_default();
    let sched = case["sched"].as_array().cloned().unwrap_or_default();
    let attach = case["attach"].as_bool().unwrap_or(false);
    let n = msgs.len();
    let procs: Vec<i64> = case["procs"].as_array().map(|a| a.iter().filter_map(|x| x.as_i64()).collect()).unwrap_or_default();
    let mut rxs = HashMap::new();
    let mut handles = Vec::new();
    let mut pactors: HashMap<i64, ProcActor> = HashMap::new();
    // late members: the channel is created by the selecting thread right before the add (descriptor numbers of members
    // that have left the set are reused); the sender thread waits for its handle
    let late: Vec<i64> = case["late"].as_array().map(|a| a.iter().filter_map(|x| x.as_i64()).collect()).unwrap_or_default();
    let mut late_tx: HashMap<i64, std::sync::mpsc::Sender<ipc::IpcSender<SMsg>>> = HashMap::new();
    for (i, npks) in msgs.iter().enumerate() {
        let m = i as i64 + 1;
        if late.contains(&m) {
            let (htx, hrx) = std::sync::mpsc::channel::<ipc::IpcSender<SMsg>>();
            late_tx.insert(m, htx);
            let npks = npks.clone();
            let g = gates.clone();
            g.register(m);
            handles.push(std::thread::spawn(move || {
                verif::set_actor(m);
                g.set_tid(m);
                let tx = match hrx.recv() {
                    Ok(tx) => tx,
                    Err(_) => {
                        g.finished(m);
                        return;
                    },
                };
                for (j, npk) in npks.iter().enumerate() {
                    let _ = tx.send(make_msg(m, j as i64 + 1, *npk, attach, &tx));
                }
                drop(tx);
                g.finished(m);
            }));
            continue;
        }
        let (tx, rx) = ipc::channel::<SMsg>().unwrap();
        rxs.insert(m, rx);
        if procs.contains(&m) {
            // this member's sender lives in a child process (it can be killed)
            pactors.insert(m, spawn_child_sender(m, npks, tx, attach));
            continue;
        }
        let npks = npks.clone();
        let g = gates.clone();
        g.register(m);
        handles.push(std::thread::spawn(move || {
            verif::set_actor(m);
            g.set_tid(m);
            for (j, npk) in npks.iter().enumerate() {
                let _ = tx.send(make_msg(m, j as i64 + 1, *npk, attach, &tx));
            }
            drop(tx);
            g.finished(m);
        }));
    }
    let (etx, erx) = std::sync::mpsc::channel::<Value>();
    {
        let g = gates.clone();
        g.register(0);
        let prog = prog.clone();
        handles.push(std::thread::spawn(move || {
            verif::set_actor(0);
            g.set_tid(0);
            let mut set = IpcReceiverSet::new().unwrap();
            let mut live = 0usize;
            let mut ids = Vec::new();
            let mut events = Vec::new();
            let mut selects = Vec::new();
            let mut do_select = |set: &mut IpcReceiverSet, live: &mut usize, events: &mut Vec<Value>, selects: &mut Vec<usize>| {
                match set.select() {
                    Ok(evs) => {
                        selects.push(evs.len());
                        for e in evs {
                            match e {
                                IpcSelectionResult::MessageReceived(id, msg) => match msg.to::<SMsg>() {
                                    Ok((d, att)) => {
                                        drop(att);
                                        let tag = if d.len() >= 8 { u64::from_le_bytes(d[..8].try_into().unwrap()) } else { 0 };
                                        events.push(json!({"t": "msg", "id": id, "m": tag / 1000, "x": tag % 1000,
                                                           "intact": d == payload(tag, d.len())}));
                                    },
                                    Err(e) => events.push(json!({"t": "undecodable", "id": id, "detail": format!("{:?}", e)})),
                                },
                                IpcSelectionResult::ChannelClosed(id) => {
                                    *live -= 1;
                                    events.push(json!({"t": "closed", "id": id}));
                                },
                            }
                        }
                        true
                    },
                    Err(e) => {
                        events.push(json!({"t": "select-error", "detail": format!("{:?}", e)}));
                        false
                    },
                }
            };
            let mut ok = true;
            for op in prog.iter() {
                if gets(op, "op") == "add" {
                    let m = geti(op, "m");
                    let rx = match late_tx.remove(&m) {
                        Some(htx) => {
                            // created now, ungated (the creation is not part of the model's schedule)
                            let was = verif::actor();
                            verif::set_actor(-1);
                            let (tx, rx) = ipc::channel::<SMsg>().unwrap();
                            verif::set_actor(was);
                            let _ = htx.send(tx);
                            rx
                        },
                        None => rxs.remove(&m).unwrap(),
                    };
                    let idv = set.add(rx).unwrap();
                    ids.push(json!({"m": m, "id": idv}));
                    live += 1;
                } else if live > 0 || true {
                    if !do_select(&mut set, &mut live, &mut events, &mut selects) {
                        ok = false;
                        break;
                    }
                }
            }
            while ok && live > 0 {
                if !do_select(&mut set, &mut live, &mut events, &mut selects) {
                    break;
                }
            }
            let _ = etx.send(json!({"ids": ids, "events": events, "selects": selects}));
            g.finished(0);
            drop(set);
        }));
    }

    let mut matched = true;
    let mut why = String::new();
    let mut last_gen: HashMap<i64, u64> = HashMap::new();
    'sched: for (nstep, st) in sched.iter().enumerate() {
        let a = geti(st, "a");
        let k = gets(st, "k").to_string();
        if let Some(p) = pactors.get_mut(&a) {
            if k == "kill" {
                let _ = p.settle();
                p.kill();
                continue;
            }
            let mut guard = 0;
            loop {
                match p.settle() {
                    None => {
                        matched = false;
                        why = format!("step {}: actor {} finished before a '{}' call", nstep, a, k);
                        break 'sched;
                    },
                    Some(kind) => {
                        p.grant();
                        if kind == k {
                            let _ = p.settle();
                            break;
                        }
                        guard += 1;
                        if guard > 40 {
                            matched = false;
                            why = format!("step {}: actor {} never reached '{}'", nstep, a, k);
                            break 'sched;
                        }
                    },
                }
            }
            continue;
        }
        let lg = last_gen.get(&a).copied().unwrap_or(0);
        if k == "wake" {
            // the selecting thread sleeps in epoll_wait (or stands at the wait gate after a signal);
            // the model says an event has arrived
            match gates.wait_settled(a, lg, 5000) {
                Some(_) => continue,
                None => {
                    matched = false;
                    why = format!("step {}: select stays asleep although the model has an event pending", nstep);
                    break 'sched;
                },
            }
        }
        if k == "intr" {
            if let Some(tid) = gates.tid_of(a) {
                unsafe {
                    libc::syscall(libc::SYS_tgkill, libc::getpid(), tid, libc::SIGUSR1);
                }
            }
            // it comes back to the wait gate; send it into epoll_wait again
            match gates.wait_settled(a, lg, 3000) {
                Some(St::Parked(kind, gen)) => {
                    last_gen.insert(a, gen);
                    if kind == "wait" {
                        gates.grant(a);
                        let _ = gates.wait_quiescent(a, gen, 3000);
                    } else {
                        // woke up for a real event at the same time: leave it at that gate
                        last_gen.insert(a, lg);
                    }
                },
                _ => {
                    matched = false;
                    why = format!("step {}: no return to the wait after a signal", nstep);
                    break 'sched;
                },
            }
            continue;
        }
        let mut guard = 0;
        loop {
            let lg = last_gen.get(&a).copied().unwrap_or(0);
            match gates.wait_quiescent(a, lg, 3000) {
                None | Some(St::Running) => {
                    matched = false;
                    why = format!("step {}: actor {} is blocked in the kernel before '{}'", nstep, a, k);
                    break 'sched;
                },
                Some(St::Finished) => {
                    matched = false;
                    why = format!("step {}: actor {} finished before a '{}' call", nstep, a, k);
                    break 'sched;
                },
                Some(St::Parked(kind, gen)) => {
                    if a == 0 && kind != k && (kind == "wait" || kind == "add") {
                        // the selecting thread is about to do something the model does not do now
                        matched = false;
                        why = format!("step {}: selecting thread is at '{}' where the model does '{}'", nstep, kind, k);
                        break 'sched;
                    }
                    last_gen.insert(a, gen);
                    gates.grant(a);
                    if gates.wait_quiescent(a, gen, 3000).is_none() {
                        matched = false;
                        why = format!("step {}: actor {} neither parked nor asleep after '{}'", nstep, a, kind);
                        break 'sched;
                    }
                    if kind == k {
                        break;
                    }
                    guard += 1;
                    if guard > 60 {
                        matched = false;
                        why = format!("step {}: actor {} never reached '{}'", nstep, a, k);
                        break 'sched;
                    }
                },
            }
        }
    }
    gates.free_all();
    for p in pactors.values_mut() {
        if !p.finished {
            p.free();
        }
    }
    let out = erx.recv_timeout(Duration::from_secs(10));
    let hang = out.is_err();
    if !hang {
        for h in handles {
            let _ = h.join();
        }
    }
    for (_, mut p) in pactors.drain() {
        let _ = p.child.wait();
    }
    json!({"id": id, "matched": matched, "why": why, "hang": hang, "n": n,
           "observed": out.unwrap_or(json!(null))})
}
