//! B1 replay of `NestedRecv.tla` behaviours: values whose Deserialize impls receive (and decode)
//! another message on the same thread.
//!
//! `vharness nrecv`: stdin = one case per line, exported by TLC:
//!   {"id":N,"script":[{"k":"S"|"R"|"M"|"D"|"NR","inner":[..]}..],"done":[{path,own,got,ok}..]}
//! stdout = {"begin":id} then one verdict per case.

use crate::common::*;
use ipc_channel::ipc::{self, IpcError, IpcReceiver, IpcSender, IpcSharedMemory, TryRecvError};
use serde::{Deserialize, Deserializer, Serialize, Serializer};
use serde_json::{json, Value};
use std::cell::RefCell;
use std::collections::VecDeque;

/// The result of a receive performed inside `Deserialize`.
pub struct NestedRecv(Result<Vec<RStep>, String>);

#[derive(Serialize, Deserialize)]
pub enum RStep {
    D(u64),
    S(IpcSender<u64>),
    R(IpcReceiver<u64>),
    M(IpcSharedMemory),
    N(NestedRecv),
}

thread_local! {
    /// side channels of the nested receives, in the order deserialisation meets them
    static SIDE: RefCell<VecDeque<(IpcReceiver<Vec<RStep>>, bool)>> = RefCell::new(VecDeque::new());
}

impl Serialize for NestedRecv {
    fn serialize<S: Serializer>(&self, serializer: S) -> Result<S::Ok, S::Error> {
        serializer.serialize_u8(7)
    }
}

impl<'de> Deserialize<'de> for NestedRecv {
    fn deserialize<D: Deserializer<'de>>(deserializer: D) -> Result<Self, D::Error> {
        let _marker = u8::deserialize(deserializer)?;
        let rx = SIDE.with(|s| s.borrow_mut().pop_front());
        let r = match rx {
            None => Err("no side channel left".to_string()),
            // a receive - and the decode of what arrived - inside this Deserialize impl; the message is queued
            // already, so the blocking flavour does not block (both flavours are used, alternating)
            Some((rx, blocking)) => {
                if blocking {
                    rx.recv().map_err(|e| format!("{:?}", e))
                } else {
                    rx.try_recv().map_err(|e| format!("{:?}", e))
                }
            },
        };
        Ok(NestedRecv(r))
    }
}

/// Serialises like `RStep::S(sender)` whose sender claims channel index 0 - without attaching anything.
struct BadS;
impl Serialize for BadS {
    fn serialize<S: Serializer>(&self, serializer: S) -> Result<S::Ok, S::Error> {
        serializer.serialize_newtype_variant("RStep", 1, "S", &0u64)
    }
}
impl<'de> Deserialize<'de> for BadS {
    fn deserialize<D: Deserializer<'de>>(_: D) -> Result<Self, D::Error> {
        Ok(BadS)
    }
}

enum Kept {
    Rx(IpcReceiver<u64>),
    Tx(IpcSender<u64>),
    Bytes(Vec<u8>),
}

/// Builds the value for `slots`, sending the messages of its nested receives on fresh side
/// channels (registered in pre-order). `kept[path]` lists what was attached at that frame.
fn build(slots: &[Value], path: &[u64], kept: &mut Vec<(Vec<u64>, Vec<Kept>)>) -> Vec<RStep> {
    let mut steps = Vec::new();
    let mut mine = Vec::new();
    let mut n = 0u64;
    let me = kept.len();
    kept.push((path.to_vec(), Vec::new()));
    for s in slots {
        match gets(s, "k") {
            "D" => steps.push(RStep::D(41)),
            "S" => {
                let (tx, rx) = ipc::channel::<u64>().unwrap();
                mine.push(Kept::Rx(rx));
                steps.push(RStep::S(tx));
            },
            "R" => {
                let (tx, rx) = ipc::channel::<u64>().unwrap();
                mine.push(Kept::Tx(tx));
                steps.push(RStep::R(rx));
            },
            "M" => {
                let bytes = payload(3000 + (me * 16 + mine.len()) as u64, 10 + mine.len() * 5 + me);
                steps.push(RStep::M(IpcSharedMemory::from_bytes(&bytes)));
                mine.push(Kept::Bytes(bytes));
            },
            "NR" => {
                n += 1;
                let mut p = path.to_vec();
                p.push(n);
                let (tx, rx) = ipc::channel::<Vec<RStep>>().unwrap();
                SIDE.with(|q| {
                    let mut q = q.borrow_mut();
                    let blocking = q.len() % 2 == 0;
                    q.push_back((rx, blocking))
                });
                let inner = build(s.get("inner").and_then(|i| i.as_array()).map(|v| &v[..]).unwrap_or(&[]), &p, kept);
                tx.send(inner).expect("side send");
                steps.push(RStep::N(NestedRecv(Ok(Vec::new()))));
            },
            "NX" => {
                // a message without attachments whose bytes name "the sender at channel index 0"
                let (tx, rx) = ipc::channel::<Vec<BadS>>().unwrap();
                tx.send(vec![BadS]).expect("side send");
                let rx: IpcReceiver<Vec<RStep>> = rx.to_opaque().to();
                SIDE.with(|q| {
                    let mut q = q.borrow_mut();
                    let blocking = q.len() % 2 == 0;
                    q.push_back((rx, blocking))
                });
                steps.push(RStep::N(NestedRecv(Ok(Vec::new()))));
            },
            other => panic!("bad slot kind {}", other),
        }
    }
    kept[me].1 = mine;
    steps
}

/// Compares what frame `path` received with what was attached to its message.
fn compare(slots: &[Value], got: Vec<RStep>, path: &[u64], kept: &mut Vec<(Vec<u64>, Vec<Kept>)>, hold: &mut Vec<RStep>) -> Option<String> {
    if got.len() != slots.len() {
        return Some(format!("frame {:?}: {} positions received, {} sent", path, got.len(), slots.len()));
    }
    let me = kept.iter().position(|(p, _)| p == path)?;
    let mut a = 0usize;
    let mut n = 0u64;
    for (j, (g, s)) in got.into_iter().zip(slots.iter()).enumerate() {
        let k = gets(s, "k");
        match (g, k) {
            (RStep::D(41), "D") => {},
            (RStep::S(tx), "S") => {
                let nonce = 7000 + (me * 100 + a) as u64;
                let ok = match &kept[me].1[a] {
                    Kept::Rx(r) => tx.send(nonce).is_ok() && matches!(r.try_recv(), Ok(x) if x == nonce),
                    _ => false,
                };
                a += 1;
                if !ok {
                    return Some(format!("frame {:?}: position {} is not the sender attached there", path, j));
                }
                hold.push(RStep::S(tx));
            },
            (RStep::R(rx), "R") => {
                let nonce = 7000 + (me * 100 + a) as u64;
                let ok = match &kept[me].1[a] {
                    Kept::Tx(t) => t.send(nonce).is_ok() && matches!(rx.try_recv(), Ok(x) if x == nonce),
                    _ => false,
                };
                a += 1;
                if !ok {
                    return Some(format!("frame {:?}: position {} is not the receiver attached there", path, j));
                }
                hold.push(RStep::R(rx));
            },
            (RStep::M(m), "M") => {
                let ok = match &kept[me].1[a] {
                    Kept::Bytes(b) => &m[..] == &b[..],
                    _ => false,
                };
                a += 1;
                if !ok {
                    return Some(format!("frame {:?}: position {} is not the region attached there", path, j));
                }
            },
            (RStep::N(NestedRecv(r)), "NR") => {
                n += 1;
                let mut p = path.to_vec();
                p.push(n);
                match r {
                    Err(e) => return Some(format!("nested receive at {:?} failed: {}", p, e)),
                    Ok(inner) => {
                        let islots = s.get("inner").and_then(|i| i.as_array()).cloned().unwrap_or_default();
                        if let Some(w) = compare(&islots, inner, &p, kept, hold) {
                            return Some(w);
                        }
                    },
                }
            },
            (RStep::N(NestedRecv(r)), "NX") => {
                // the mismatched payload must have been refused - and must not have been given anybody's endpoint
                if let Ok(v) = r {
                    return Some(format!(
                        "frame {:?}: a nested message without attachments decoded into {} endpoint(s) it never carried",
                        path,
                        v.len()
                    ));
                }
            },
            _ => return Some(format!("frame {:?}: position {} has the wrong kind", path, j)),
        }
    }
    None
}

fn run_case(case: &Value) -> Option<String> {
    SIDE.with(|q| q.borrow_mut().clear());
    if ipc::verif_side_table_lens() != [0, 0, 0, 0] {
        return Some(format!("tables not empty before the case: {:?}", ipc::verif_side_table_lens()));
    }
    let slots = case["script"].as_array().cloned().unwrap_or_default();
    let mut kept = Vec::new();
    let (tx, rx) = ipc::channel::<Vec<RStep>>().unwrap();
    let outer = build(&slots, &[], &mut kept);
    if tx.send(outer).is_err() {
        return Some("outer send failed".into());
    }
    drop(tx);
    // the model: every decode succeeds with exactly its own attachments
    let all_ok = case["done"].as_array().map(|d| d.iter().all(|f| f["ok"].as_bool().unwrap_or(false))).unwrap_or(true);
    let got = rx.try_recv();
    let after = ipc::verif_side_table_lens();
    let mut hold = Vec::new();
    let verdict = match got {
        Err(e) => {
            if all_ok {
                Some(format!("outer message with nested receives did not decode: {:?}", e))
            } else {
                None
            }
        },
        Ok(v) => compare(&slots, v, &[], &mut kept, &mut hold),
    };
    if verdict.is_some() {
        return verdict;
    }
    if after != [0, 0, 0, 0] {
        return Some(format!("attachment tables not empty after the top-level receive returned: {:?}", after));
    }
    // release: once the program's handles are gone every attached channel disconnects
    drop(hold);
    for (path, ks) in kept.iter() {
        for (i, k) in ks.iter().enumerate() {
            match k {
                Kept::Rx(r) => loop {
                    match r.try_recv() {
                        Ok(_) => continue,
                        Err(TryRecvError::IpcError(IpcError::Disconnected)) => break,
                        Err(e) => return Some(format!("frame {:?}: sender attachment {} still held somewhere: {:?}", path, i, e)),
                    }
                },
                Kept::Tx(t) => {
                    if t.send(1).is_ok() {
                        return Some(format!("frame {:?}: receiver attachment {} still held somewhere", path, i));
                    }
                },
                Kept::Bytes(_) => {},
            }
        }
    }
    // later traffic on this thread is unaffected
    let (ftx, frx) = ipc::channel::<Vec<RStep>>().unwrap();
    let (atx, arx) = ipc::channel::<u64>().unwrap();
    if ftx.send(vec![RStep::D(1), RStep::S(atx)]).is_err() {
        return Some("follow-up send failed".into());
    }
    match frx.try_recv() {
        Ok(v) if v.len() == 2 => match &v[1] {
            RStep::S(s) if s.send(77).is_ok() && matches!(arx.try_recv(), Ok(77)) => None,
            _ => Some("follow-up message carries a foreign attachment".into()),
        },
        Ok(_) => Some("follow-up message has the wrong shape".into()),
        Err(e) => Some(format!("follow-up message did not decode: {:?}", e)),
    }
}

pub fn run() {
    raise_nofile();
    verif::init();
    for case in read_json_lines() {
        let id = geti(&case, "id");
        out_line(&json!({"begin": id}));
        let c2 = case.clone();
        // a thread per case: thread-local tables start empty, a panic is confined
        let r = with_watchdog(20_000, move || run_case(&c2));
        let v = match r {
            Ok(Ok(None)) => json!({"id": id, "ok": true}),
            Ok(Ok(Some(why))) => json!({"id": id, "ok": false, "why": why}),
            Ok(Err(_)) => json!({"id": id, "ok": false, "why": "panic while decoding a message with nested receives"}),
            Err(()) => json!({"id": id, "ok": false, "why": "decode with nested receives did not return within 20 s"}),
        };
        out_line(&v);
    }
}
