//! C10 with an environment event the model has no action for: a signal (handler installed without SA_RESTART) is
//! delivered to the receiving thread while it sits in a timed or blocking receive on an idle, connected channel.
//! Whatever the call does about the interruption, it may not report 'empty' before the requested time has passed,
//! and a blocking receive issued afterwards still blocks until a message arrives.
//! stdin: {"id":N,"d_ms":D,"sig_ms":[..],"after":"recv"|"try"}

use crate::common::*;
use ipc_channel::ipc::{self, IpcError, TryRecvError};
use serde_json::json;
use std::time::{Duration, Instant};

extern "C" fn on_signal(_: libc::c_int) {}

pub fn run() {
    verif::init();
    unsafe {
        let mut sa: libc::sigaction = std::mem::zeroed();
        sa.sa_sigaction = on_signal as usize;
        sa.sa_flags = 0; // no SA_RESTART: system calls fail with EINTR
        libc::sigemptyset(&mut sa.sa_mask);
        libc::sigaction(libc::SIGUSR1, &sa, std::ptr::null_mut());
    }
    for c in read_json_lines() {
        let id = geti(&c, "id");
        let d = Duration::from_millis(geti(&c, "d_ms") as u64);
        let sigs: Vec<u64> = c["sig_ms"].as_array().map(|a| a.iter().filter_map(|x| x.as_u64()).collect()).unwrap_or_default();
        let (tx, rx) = ipc::channel::<u64>().unwrap();
        let tid = unsafe { libc::syscall(libc::SYS_gettid) } as libc::pid_t;
        let pid = unsafe { libc::getpid() };
        let t0 = Instant::now();
        let killer = std::thread::spawn(move || {
            for ms in sigs {
                let at = Duration::from_millis(ms);
                let now = t0.elapsed();
                if at > now {
                    std::thread::sleep(at - now);
                }
                unsafe {
                    libc::syscall(libc::SYS_tgkill, pid, tid, libc::SIGUSR1);
                }
            }
        });
        let r = rx.try_recv_timeout(d);
        let elapsed = t0.elapsed();
        let _ = killer.join();
        let (res, detail) = match &r {
            Ok(_) => ("msg", String::new()),
            Err(TryRecvError::Empty) => ("empty", String::new()),
            Err(TryRecvError::IpcError(IpcError::Disconnected)) => ("disc", String::new()),
            Err(e) => ("error", format!("{:?}", e)),
        };
        // afterwards the channel still works: a message sent now is received by a blocking receive
        let sender = std::thread::spawn(move || {
            std::thread::sleep(Duration::from_millis(30));
            let ok = tx.send(77).is_ok();
            (tx, ok)
        });
        let t1 = Instant::now();
        let after = rx.recv();
        let after_us = t1.elapsed().as_micros() as u64;
        let (_tx, sent) = sender.join().unwrap();
        out_line(&json!({"id": id, "res": res, "detail": detail, "elapsed_us": elapsed.as_micros() as u64,
                         "after": match after { Ok(77) => "msg".to_string(), Ok(x) => format!("other {}", x), Err(e) => format!("{:?}", e) },
                         "after_us": after_us, "sent": sent}));
    }
}
