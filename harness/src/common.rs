//! Helpers shared by every harness role.
#![allow(dead_code)]

use serde_json::Value;
use std::collections::BTreeMap;
use std::io::{BufRead, Write};
use std::sync::mpsc;
use std::time::Duration;

pub use ipc_channel::verif;

/// Deterministic, position-dependent payload: byte i depends on (seed, i); the first 8 bytes are
/// the little-endian tag when the payload is long enough.
pub fn payload(tag: u64, len: usize) -> Vec<u8> {
    let mut v = Vec::with_capacity(len);
    let s = tag.wrapping_mul(0x9E37_79B9_7F4A_7C15);
    for i in 0..len {
        let x = (i as u64).wrapping_add(s).wrapping_mul(0x2545_F491_4F6C_DD1D);
        v.push((x >> 29) as u8);
    }
    if len >= 8 {
        v[..8].copy_from_slice(&tag.to_le_bytes());
    }
    v
}

pub fn checksum(data: &[u8]) -> u64 {
    let mut h: u64 = 0xcbf29ce484222325;
    for b in data {
        h ^= *b as u64;
        h = h.wrapping_mul(0x100000001b3);
    }
    h
}

/// First index where two byte strings differ (or the shorter length), None if equal.
pub fn first_diff(a: &[u8], b: &[u8]) -> Option<usize> {
    if a == b {
        return None;
    }
    let n = a.len().min(b.len());
    for i in 0..n {
        if a[i] != b[i] {
            return Some(i);
        }
    }
    Some(n)
}

/// Run `f` on a fresh thread; Err(()) if it does not finish within `ms` (the thread is abandoned).
pub fn with_watchdog<T: Send + 'static>(
    ms: u64,
    f: impl FnOnce() -> T + Send + 'static,
) -> Result<std::thread::Result<T>, ()> {
    let (tx, rx) = mpsc::channel();
    let actor = verif::actor();
    std::thread::spawn(move || {
        verif::set_actor(actor);
        let r = std::panic::catch_unwind(std::panic::AssertUnwindSafe(f));
        let _ = tx.send(r);
    });
    rx.recv_timeout(Duration::from_millis(ms)).map_err(|_| ())
}

pub fn raise_nofile() {
    unsafe {
        let mut r = libc::rlimit {
            rlim_cur: 0,
            rlim_max: 0,
        };
        if libc::getrlimit(libc::RLIMIT_NOFILE, &mut r) == 0 {
            r.rlim_cur = r.rlim_max;
            libc::setrlimit(libc::RLIMIT_NOFILE, &r);
        }
    }
}

/// Open descriptors of this process: fd -> link target.
pub fn list_fds() -> BTreeMap<i32, String> {
    let mut m = BTreeMap::new();
    if let Ok(rd) = std::fs::read_dir("/proc/self/fd") {
        let entries: Vec<_> = rd.flatten().collect();
        for e in entries {
            if let Ok(fd) = e.file_name().to_string_lossy().parse::<i32>() {
                if let Ok(t) = std::fs::read_link(e.path()) {
                    let t = t.to_string_lossy().to_string();
                    if t.contains("/proc/") && t.ends_with("/fd") {
                        continue; // the directory handle used for this listing
                    }
                    m.insert(fd, t);
                }
            }
        }
    }
    m
}

/// Shared file mappings of this process (start address -> (length, path)), ipc-channel style
/// (/dev/shm or memfd backed).
pub fn list_shared_maps() -> BTreeMap<u64, (u64, String)> {
    let mut m = BTreeMap::new();
    if let Ok(s) = std::fs::read_to_string("/proc/self/maps") {
        for line in s.lines() {
            let parts: Vec<&str> = line.split_whitespace().collect();
            if parts.len() < 6 {
                continue;
            }
            let path = parts[5..].join(" ");
            if !(path.contains("ipc-channel-shared-memory") || path.starts_with("/memfd:")) {
                continue;
            }
            let mut it = parts[0].split('-');
            let a = u64::from_str_radix(it.next().unwrap(), 16).unwrap();
            let b = u64::from_str_radix(it.next().unwrap(), 16).unwrap();
            m.insert(a, (b - a, path));
        }
    }
    m
}

pub fn read_json_lines() -> Vec<Value> {
    let stdin = std::io::stdin();
    let mut out = Vec::new();
    for line in stdin.lock().lines() {
        let line = line.unwrap();
        let line = line.trim();
        if line.is_empty() {
            continue;
        }
        out.push(serde_json::from_str(line).expect("bad json line on stdin"));
    }
    out
}

pub fn out_line(v: &Value) {
    let stdout = std::io::stdout();
    let mut l = stdout.lock();
    let _ = writeln!(l, "{}", v);
}

pub fn geti(v: &Value, k: &str) -> i64 {
    v.get(k).and_then(|x| x.as_i64()).unwrap_or(0)
}

pub fn gets<'a>(v: &'a Value, k: &str) -> &'a str {
    v.get(k).and_then(|x| x.as_str()).unwrap_or("")
}

/// Install a process-wide panic hook that records panics of any thread as trace events and on
/// stderr (panics are data, not harness failures).
pub fn install_panic_recorder() {
    let prev = std::panic::take_hook();
    std::panic::set_hook(Box::new(move |info| {
        verif::emit("panic", &[]);
        eprintln!("PANIC-RECORDED: {}", info);
        let _ = &prev;
    }));
}

/// For child roles: die with the parent (an orphan would keep the driver's pipes open).
pub fn die_with_parent() {
    unsafe {
        libc::prctl(libc::PR_SET_PDEATHSIG, libc::SIGKILL);
    }
}
