//! B1 replay of `Channels.tla` behaviours through the public API (`ipc_channel::ipc`).
//!
//! `vharness chan [thread|process]`: stdin = one behaviour per line: {"id":N,"ops":[...]} (the log
//! exported by TLC).  Each operation is executed by the agent the model names, on the handles the
//! model names, and its result is compared with the model's.  stdout = one verdict per line.
//! `vharness agent <server-name>`: the process form of agent 1.

use crate::common::*;
use ipc_channel::ipc::{
    self, IpcBytesReceiver, IpcBytesSender, IpcError, IpcOneShotServer, IpcReceiver, IpcSender,
    IpcSharedMemory, OpaqueIpcSender, TryRecvError,
};
use serde::{Deserialize, Serialize};
use serde_json::{json, Value};
use std::collections::HashMap;
use std::io::{BufRead, BufReader, Write};
use std::process::{Child, ChildStdin, ChildStdout, Command, Stdio};
use std::sync::atomic::{AtomicU64, Ordering};
use std::sync::mpsc;
use std::time::Duration;

#[derive(Serialize, Deserialize)]
pub struct Msg {
    pub tag: u64,
    pub pad: Vec<u8>,
    pub slots: Vec<Slot>,
    /// serialised last: reports an error when set, after every slot has been visited
    pub tail: Tail,
}

/// The leading fields of `Msg`: decoding a message as this leaves its attachments unreferenced (they are dropped with the
/// opaque message, unconverted).
#[derive(Serialize, Deserialize)]
pub struct MsgHead {
    pub tag: u64,
    pub pad: Vec<u8>,
}

pub struct Tail(pub bool);

impl Serialize for Tail {
    fn serialize<S: serde::Serializer>(&self, serializer: S) -> Result<S::Ok, S::Error> {
        if self.0 {
            return Err(serde::ser::Error::custom("scripted serialisation failure"));
        }
        serializer.serialize_u8(0)
    }
}

impl<'de> Deserialize<'de> for Tail {
    fn deserialize<D: serde::Deserializer<'de>>(deserializer: D) -> Result<Self, D::Error> {
        let _ = u8::deserialize(deserializer)?;
        Ok(Tail(false))
    }
}

#[derive(Serialize, Deserialize)]
pub enum Slot {
    D(u64),
    S(IpcSender<Msg>),
    OS(OpaqueIpcSender),
    BS(IpcBytesSender),
    R(IpcReceiver<Msg>),
    BR(IpcBytesReceiver),
    M(IpcSharedMemory),
    /// a receiver embedded through a shared pointer: the program keeps its handle after the send and can see
    /// whether it was really moved out (C04: "the handle it was sent from receives nothing further")
    RR(SharedRecv),
}

pub struct SharedRecv(pub std::rc::Rc<IpcReceiver<Msg>>);

// A message type must be Send for its channel endpoints to move between the harness' threads. The pointer is never
// actually shared across threads: the sending side's clones stay inside one `send` call, a received one is unique.
unsafe impl Send for SharedRecv {}

impl Serialize for SharedRecv {
    fn serialize<S: serde::Serializer>(&self, serializer: S) -> Result<S::Ok, S::Error> {
        (*self.0).serialize(serializer)
    }
}

impl<'de> Deserialize<'de> for SharedRecv {
    fn deserialize<D: serde::Deserializer<'de>>(deserializer: D) -> Result<Self, D::Error> {
        IpcReceiver::<Msg>::deserialize(deserializer).map(|r| SharedRecv(std::rc::Rc::new(r)))
    }
}

pub enum Handle {
    X(ipc::IpcReceiverSet),
    S(IpcSender<Msg>),
    R(IpcReceiver<Msg>),
    BS(IpcBytesSender),
    BR(IpcBytesReceiver),
    M(IpcSharedMemory),
}

/// Real lengths behind the model's region length tokens.
pub const REGION_LENS: [usize; 12] = [
    0,
    1,
    4095,
    4096,
    4097,
    8191,
    8192,
    8193,
    100_000,
    7,
    2 * 1024 * 1024 + 1,
    3 * 1024 * 1024 + 4097,
];

pub fn region_len(tok: i64) -> usize {
    REGION_LENS[(tok as usize) % REGION_LENS.len()]
}

static PROGRESS: AtomicU64 = AtomicU64::new(0);

pub fn big_pad() -> usize {
    #[cfg(not(feature = "inprocess"))]
    {
        let c = ipc_channel::platform::verif_constants(4096);
        2 * c[1] + 1234
    }
    #[cfg(feature = "inprocess")]
    {
        500_000
    }
}

pub struct Agent {
    pub handles: HashMap<i64, Handle>,
    pub big: usize,
}

impl Agent {
    pub fn new() -> Agent {
        Agent {
            handles: HashMap::new(),
            big: big_pad(),
        }
    }

    /// Execute one operation of the model; returns the observation in the shape of the log entry.
    pub fn exec(&mut self, op: &Value) -> Value {
        PROGRESS.fetch_add(1, Ordering::SeqCst);
        let name = gets(op, "op");
        match name {
            "new" => {
                if gets(op, "typ") == "bytes" {
                    let (s, r) = ipc::bytes_channel().unwrap();
                    self.handles.insert(geti(op, "hs"), Handle::BS(s));
                    self.handles.insert(geti(op, "hr"), Handle::BR(r));
                } else {
                    let (s, r) = ipc::channel::<Msg>().unwrap();
                    self.handles.insert(geti(op, "hs"), Handle::S(s));
                    self.handles.insert(geti(op, "hr"), Handle::R(r));
                }
                json!({})
            },
            "region" => {
                let n = region_len(geti(op, "len"));
                let tok = geti(op, "tok") as u64;
                let m = if tok % 2 == 0 {
                    IpcSharedMemory::from_bytes(&payload(tok, n))
                } else {
                    // from_byte on odd tokens: a fill byte derived from the token
                    IpcSharedMemory::from_byte((tok * 37 + 11) as u8, n)
                };
                self.handles.insert(geti(op, "nh"), Handle::M(m));
                json!({})
            },
            "clone" => {
                let nh = geti(op, "nh");
                let c = match self.handles.get(&geti(op, "h")) {
                    Some(Handle::S(s)) => Handle::S(s.clone()),
                    Some(Handle::BS(s)) => Handle::BS(s.clone()),
                    Some(Handle::M(m)) => Handle::M(m.clone()),
                    _ => return json!({"error": "clone of a handle that is not held"}),
                };
                self.handles.insert(nh, c);
                json!({})
            },
            "drop" => {
                if self.handles.remove(&geti(op, "h")).is_none() {
                    return json!({"error": "drop of a handle that is not held"});
                }
                json!({})
            },
            "read" => match self.handles.get(&geti(op, "h")) {
                Some(Handle::M(m)) => {
                    let n = region_len(geti(op, "len"));
                    let tok = geti(op, "tok") as u64;
                    let want = if tok % 2 == 0 {
                        payload(tok, n)
                    } else {
                        vec![(tok * 37 + 11) as u8; n]
                    };
                    let got: &[u8] = m;
                    json!({"len_ok": got.len() == n, "bytes_ok": got == &want[..], "got_len": got.len()})
                },
                _ => json!({"error": "read of a handle that is not a region"}),
            },
            "setnew" => {
                self.handles.insert(geti(op, "nh"), Handle::X(ipc::IpcReceiverSet::new().unwrap()));
                json!({})
            },
            "setadd" => {
                let r = match self.handles.remove(&geti(op, "h")) {
                    Some(Handle::R(r)) => r,
                    _ => return json!({"error": "setadd: not a typed receiver"}),
                };
                match self.handles.get_mut(&geti(op, "x")) {
                    Some(Handle::X(set)) => match set.add(r) {
                        Ok(id) => json!({"id": id}),
                        Err(e) => json!({"error": format!("add failed: {:?}", e)}),
                    },
                    _ => json!({"error": "setadd: not a set"}),
                }
            },
            "setdrain" => {
                let want = geti(op, "n") as usize;
                let set = match self.handles.get_mut(&geti(op, "x")) {
                    Some(Handle::X(set)) => set,
                    _ => return json!({"error": "setdrain: not a set"}),
                };
                // per id: tags in arrival order, and whether a closed event was seen (and that it came last)
                let mut per: std::collections::BTreeMap<u64, (Vec<u64>, bool, bool)> = Default::default();
                let mut seen = 0;
                let mut intact = true;
                // "discard": the messages of this drain carry endpoints; only their heads (tag, payload) are decoded -
                // after the drain - and the attachments are dropped unconverted with the message
                let discard = op.get("discard").and_then(|b| b.as_bool()).unwrap_or(false);
                let mut held: Vec<(u64, ipc::OpaqueIpcMessage)> = Vec::new();
                while seen < want {
                    PROGRESS.fetch_add(1, Ordering::SeqCst);
                    let evs = match set.select() {
                        Ok(e) => e,
                        Err(e) => return json!({"error": format!("select failed: {:?}", e)}),
                    };
                    for ev in evs {
                        seen += 1;
                        match ev {
                            ipc::IpcSelectionResult::MessageReceived(id, m) => {
                                let e = per.entry(id).or_default();
                                if e.1 {
                                    e.2 = true; // a message after the closed event
                                }
                                if discard {
                                    // kept undeserialised until the drain is over, then thrown away
                                    held.push((id, m));
                                    continue;
                                }
                                match m.to::<Msg>() {
                                    Ok(m) => {
                                        let big = m.pad.len() > 3;
                                        if m.pad != payload(m.tag, if big { self.big } else { 3 }) {
                                            intact = false;
                                        }
                                        e.0.push(m.tag);
                                    },
                                    Err(_) => intact = false,
                                }
                            },
                            ipc::IpcSelectionResult::ChannelClosed(id) => {
                                let e = per.entry(id).or_default();
                                if e.1 {
                                    e.2 = true; // closed twice
                                }
                                e.1 = true;
                            },
                        }
                    }
                }
                for (id, m) in held {
                    let e = per.entry(id).or_default();
                    match m.to::<MsgHead>() {
                        Ok(m) => {
                            let big = m.pad.len() > 3;
                            if m.pad != payload(m.tag, if big { self.big } else { 3 }) {
                                intact = false;
                            }
                            e.0.push(m.tag);
                        },
                        Err(_) => intact = false,
                    }
                }
                let evs: Vec<Value> = per
                    .iter()
                    .map(|(id, (tags, closed, bad))| json!({"id": id, "tags": tags, "closed": closed, "bad_order": bad}))
                    .collect();
                json!({"n": seen, "evs": evs, "intact": intact})
            },
            "send" | "probe" => self.send(op),
            "recv" | "drain" => self.recv(op),
            _ => json!({"error": format!("unknown op {}", name)}),
        }
    }

    fn send(&mut self, op: &Value) -> Value {
        let h = geti(op, "h");
        let tag = geti(op, "tag") as u64;
        let big = op.get("big").and_then(|b| b.as_bool()).unwrap_or(false);
        let slots_spec: Vec<Value> = op
            .get("slots")
            .and_then(|s| s.as_array())
            .cloned()
            .unwrap_or_default();
        // bytes channel
        if let Some(Handle::BS(s)) = self.handles.get(&h) {
            let d = payload(tag, if big { self.big } else { 16 });
            return match s.send(&d) {
                Ok(()) => json!({"res": "ok"}),
                Err(e) => json!({"res": "err", "detail": format!("{:?}", e)}),
            };
        }
        let mut slots = Vec::new();
        let mut ghosts: Vec<std::rc::Rc<IpcReceiver<Msg>>> = Vec::new();
        for (i, sp) in slots_spec.iter().enumerate() {
            let k = gets(sp, "k");
            let sh = geti(sp, "h");
            let slot = match k {
                "D" => Slot::D(tag * 100 + i as u64),
                "S" => match self.handles.get(&sh) {
                    Some(Handle::S(s)) => {
                        if (tag as usize + i) % 2 == 1 {
                            Slot::OS(s.clone().to_opaque())
                        } else {
                            Slot::S(s.clone())
                        }
                    },
                    Some(Handle::BS(s)) => Slot::BS(s.clone()),
                    _ => return json!({"error": "send: sender slot not held"}),
                },
                "R" => match self.handles.remove(&sh) {
                    Some(Handle::R(r)) => {
                        if (tag as usize + i) % 2 == 0 {
                            let rc = std::rc::Rc::new(r);
                            ghosts.push(rc.clone());
                            Slot::RR(SharedRecv(rc))
                        } else {
                            Slot::R(r)
                        }
                    },
                    Some(Handle::BR(r)) => Slot::BR(r),
                    _ => return json!({"error": "send: receiver slot not held"}),
                },
                "M" => match self.handles.get(&sh) {
                    Some(Handle::M(m)) => Slot::M(m.clone()),
                    _ => return json!({"error": "send: region slot not held"}),
                },
                _ => return json!({"error": "send: bad slot kind"}),
            };
            slots.push(slot);
        }
        let msg = Msg {
            tag,
            pad: payload(tag, if big { self.big } else { 3 }),
            slots,
            tail: Tail(op.get("fail").and_then(|b| b.as_bool()).unwrap_or(false)),
        };
        let mut out = match self.handles.get(&h) {
            Some(Handle::S(s)) => match s.send(msg) {
                Ok(()) => json!({"res": "ok"}),
                Err(e) => json!({"res": "err", "detail": format!("{:?}", e)}),
            },
            _ => json!({"error": "send on a handle that is not a sender"}),
        };
        // a receiver that was embedded has been moved out of the handle it was sent from: that handle is dead now
        // (not on the in-process transport: there a moved-out handle panics when used, which is just as dead)
        #[cfg(feature = "inprocess")]
        ghosts.clear();
        for g in ghosts {
            match g.try_recv() {
                Ok(_) | Err(TryRecvError::Empty) | Err(TryRecvError::IpcError(IpcError::Disconnected)) => {
                    out["ghost"] = json!("the handle a receiver was sent from is still attached to the channel after the send");
                },
                Err(_) => {},
            }
        }
        out
    }

    fn recv(&mut self, op: &Value) -> Value {
        let h = geti(op, "h");
        let mode = gets(op, "mode");
        enum Got {
            Msg(Msg),
            Bytes(Vec<u8>),
            Empty,
            Disc,
            Other(String),
        }
        fn from_try<T>(r: Result<T, TryRecvError>, f: impl FnOnce(T) -> Got) -> Got {
            match r {
                Ok(v) => f(v),
                Err(TryRecvError::Empty) => Got::Empty,
                Err(TryRecvError::IpcError(IpcError::Disconnected)) => Got::Disc,
                Err(e) => Got::Other(format!("{:?}", e)),
            }
        }
        fn from_recv<T>(r: Result<T, IpcError>, f: impl FnOnce(T) -> Got) -> Got {
            match r {
                Ok(v) => f(v),
                Err(IpcError::Disconnected) => Got::Disc,
                Err(e) => Got::Other(format!("{:?}", e)),
            }
        }
        let got = match self.handles.get(&h) {
            Some(Handle::R(r)) => match mode {
                "recv" => from_recv(r.recv(), Got::Msg),
                "timeout" => from_try(r.try_recv_timeout(Duration::from_millis(3)), Got::Msg),
                _ => from_try(r.try_recv(), Got::Msg),
            },
            Some(Handle::BR(r)) => match mode {
                "recv" => from_recv(r.recv(), Got::Bytes),
                _ => from_try(r.try_recv(), Got::Bytes),
            },
            _ => return json!({"error": "recv on a handle that is not a receiver"}),
        };
        match got {
            Got::Empty => json!({"res": "empty"}),
            Got::Disc => json!({"res": "disc"}),
            Got::Other(e) => json!({"res": "error", "detail": e}),
            Got::Bytes(d) => {
                let tag = if d.len() >= 8 {
                    u64::from_le_bytes(d[..8].try_into().unwrap())
                } else {
                    u64::MAX
                };
                let big = d.len() > 16;
                let intact = d == payload(tag, if big { self.big } else { 16 });
                json!({"res": "msg", "tag": tag, "big": big, "slots": [], "intact": intact})
            },
            Got::Msg(m) => {
                let big = m.pad.len() > 3;
                let intact = m.pad == payload(m.tag, if big { self.big } else { 3 });
                let want: Vec<Value> = op
                    .get("slots")
                    .and_then(|s| s.as_array())
                    .cloned()
                    .unwrap_or_default();
                let mut kinds = Vec::new();
                let mut data_ok = true;
                let mut region_bad: Option<String> = None;
                for (i, s) in m.slots.into_iter().enumerate() {
                    // the id the model gives to the handle in this position
                    let nh = want.get(i).map(|w| geti(w, "h")).unwrap_or(0);
                    let (k, hd) = match s {
                        Slot::D(x) => {
                            if x != m.tag * 100 + i as u64 {
                                data_ok = false;
                            }
                            ("D", None)
                        },
                        Slot::S(s) => ("S", Some(Handle::S(s))),
                        Slot::OS(s) => ("S", Some(Handle::S(s.to::<Msg>()))),
                        Slot::BS(s) => ("S", Some(Handle::BS(s))),
                        Slot::R(r) => ("R", Some(Handle::R(r))),
                        Slot::RR(sr) => match std::rc::Rc::try_unwrap(sr.0) {
                            Ok(r) => ("R", Some(Handle::R(r))),
                            Err(_) => ("R", None),
                        },
                        Slot::BR(r) => ("R", Some(Handle::BR(r))),
                        Slot::M(r) => {
                            // the region must hold the bytes it was created with, whichever position it travelled in
                            if let Some(w) = want.get(i) {
                                if gets(w, "k") == "M" && w.get("len").is_some() {
                                    let n = region_len(geti(w, "len"));
                                    let tok = geti(w, "tok") as u64;
                                    let expect = if tok % 2 == 0 { payload(tok, n) } else { vec![(tok * 37 + 11) as u8; n] };
                                    let got: &[u8] = &r;
                                    if got != &expect[..] {
                                        region_bad = Some(format!("position {}: {} bytes received, {} created", i, got.len(), n));
                                    }
                                }
                            }
                            ("M", Some(Handle::M(r)))
                        },
                    };
                    kinds.push(json!({"k": k, "h": nh}));
                    if let Some(hd) = hd {
                        if nh != 0 {
                            self.handles.insert(nh, hd);
                        }
                        // nh == 0: the model has no handle here -> mismatch is reported by kinds
                    }
                }
                json!({"res": "msg", "tag": m.tag, "big": big, "slots": kinds,
                       "intact": intact && data_ok, "region_bad": region_bad})
            },
        }
    }
}

/// Compare an observation with the model's log entry. None = conforms.
pub fn mismatch(op: &Value, obs: &Value) -> Option<String> {
    if let Some(e) = obs.get("error") {
        return Some(format!("harness could not execute the step: {}", e));
    }
    match gets(op, "op") {
        "send" | "probe" => {
            if let Some(g) = obs.get("ghost").and_then(|x| x.as_str()) {
                return Some(g.to_string());
            }
            if gets(op, "res") != gets(obs, "res") {
                return Some(format!(
                    "send: model says {}, code says {} ({})",
                    gets(op, "res"),
                    gets(obs, "res"),
                    gets(obs, "detail")
                ));
            }
        },
        "recv" | "drain" => {
            if gets(op, "res") != gets(obs, "res") {
                return Some(format!(
                    "{}({}): model says {}, code says {} {}",
                    gets(op, "op"),
                    gets(op, "mode"),
                    gets(op, "res"),
                    gets(obs, "res"),
                    gets(obs, "detail")
                ));
            }
            if gets(op, "res") == "msg" {
                if geti(op, "tag") != geti(obs, "tag") {
                    return Some(format!(
                        "received message {} where the model delivers message {}",
                        geti(obs, "tag"),
                        geti(op, "tag")
                    ));
                }
                if obs.get("intact") != Some(&json!(true)) {
                    return Some("received message has altered payload".into());
                }
                if let Some(w) = obs.get("region_bad").and_then(|x| x.as_str()) {
                    return Some(format!("a received region does not hold the bytes it was created with ({})", w));
                }
                if op.get("big") != obs.get("big") {
                    return Some("received message has a different size class".into());
                }
                let a: Vec<String> = op["slots"]
                    .as_array()
                    .map(|v| v.iter().map(|s| gets(s, "k").to_string()).collect())
                    .unwrap_or_default();
                let b: Vec<String> = obs["slots"]
                    .as_array()
                    .map(|v| v.iter().map(|s| gets(s, "k").to_string()).collect())
                    .unwrap_or_default();
                if a != b {
                    return Some(format!("slot kinds/positions differ: model {:?}, code {:?}", a, b));
                }
            }
        },
        "setadd" => {
            if geti(op, "id") != geti(obs, "id") {
                return Some(format!("set.add returned id {}, the model says {}", geti(obs, "id"), geti(op, "id")));
            }
        },
        "setdrain" => {
            if obs.get("intact") != Some(&json!(true)) {
                return Some("a message received through the set is altered or undecodable".into());
            }
            if geti(obs, "n") != geti(op, "n") {
                return Some(format!("select returned {} events where the model has {} pending", geti(obs, "n"), geti(op, "n")));
            }
            let got: Vec<Value> = obs["evs"].as_array().cloned().unwrap_or_default();
            for w in op["evs"].as_array().cloned().unwrap_or_default() {
                let id = geti(&w, "id");
                let wtags: Vec<i64> = w["tags"].as_array().map(|a| a.iter().filter_map(|x| x.as_i64()).collect()).unwrap_or_default();
                let wclosed = w["closed"].as_bool().unwrap_or(false);
                let g = got.iter().find(|g| geti(g, "id") == id);
                let (gtags, gclosed, bad): (Vec<i64>, bool, bool) = match g {
                    Some(g) => (
                        g["tags"].as_array().map(|a| a.iter().filter_map(|x| x.as_i64()).collect()).unwrap_or_default(),
                        g["closed"].as_bool().unwrap_or(false),
                        g["bad_order"].as_bool().unwrap_or(false),
                    ),
                    None => (vec![], false, false),
                };
                if gtags != wtags || gclosed != wclosed || bad {
                    return Some(format!(
                        "set member {}: events (tags {:?}, closed {}, out-of-order {}) where the model has (tags {:?}, closed {})",
                        id, gtags, gclosed, bad, wtags, wclosed
                    ));
                }
            }
        },
        "read" => {
            if obs.get("len_ok") != Some(&json!(true)) || obs.get("bytes_ok") != Some(&json!(true)) {
                return Some(format!("region contents differ: {}", obs));
            }
        },
        _ => {},
    }
    None
}

// ---------------------------------------------------------------------------------------------
// agent 1

enum Remote {
    None,
    Thread(mpsc::Sender<Option<Value>>, mpsc::Receiver<Value>, std::thread::JoinHandle<()>),
    Process(Child, ChildStdin, BufReader<ChildStdout>),
}

impl Remote {
    fn exec(&mut self, op: &Value) -> Value {
        match self {
            Remote::None => json!({"error": "no agent 1"}),
            Remote::Thread(tx, rx, _) => {
                if tx.send(Some(op.clone())).is_err() {
                    return json!({"error": "agent thread gone"});
                }
                rx.recv_timeout(Duration::from_secs(30))
                    .unwrap_or_else(|_| json!({"error": "agent thread did not answer"}))
            },
            Remote::Process(_, stdin, stdout) => {
                if writeln!(stdin, "{}", op).is_err() || stdin.flush().is_err() {
                    return json!({"error": "agent process gone"});
                }
                let mut line = String::new();
                match stdout.read_line(&mut line) {
                    Ok(n) if n > 0 => serde_json::from_str(&line)
                        .unwrap_or_else(|_| json!({"error": "bad answer from agent process"})),
                    _ => json!({"error": "agent process died"}),
                }
            },
        }
    }

    /// The agent drops everything it holds and ends (thread joined / process reaped).
    fn finish(self) {
        match self {
            Remote::None => {},
            Remote::Thread(tx, _, h) => {
                let _ = tx.send(None);
                let _ = h.join();
            },
            Remote::Process(mut child, stdin, _) => {
                drop(stdin);
                let pid = child.id() as i64;
                let _ = child.wait();
                verif::emit("exit", &[("pidx", pid)]);
            },
        }
    }
}

/// Spawn an unrelated child and ask which descriptors it was born with.
pub fn inherited_by_child() -> Option<String> {
    let exe = std::env::current_exe().ok()?;
    let out = Command::new(exe).arg("lsfd").stdin(Stdio::null()).output().ok()?;
    let text = String::from_utf8_lossy(&out.stdout);
    for line in text.lines() {
        if let Some(rest) = line.strip_prefix("FD ") {
            let mut it = rest.splitn(2, ' ');
            let fd: i32 = it.next()?.parse().ok()?;
            let target = it.next().unwrap_or("");
            if fd > 2 {
                return Some(format!("descriptor {} ({}) was inherited by a spawned child process", fd, target));
            }
        }
    }
    None
}

pub fn lsfd_main() {
    for (fd, t) in list_fds() {
        println!("FD {} {}", fd, t);
    }
}

fn spawn_thread_agent(rx0: IpcReceiver<Msg>) -> Remote {
    let (ctx, crx) = mpsc::channel::<Option<Value>>();
    let (rtx, rrx) = mpsc::channel::<Value>();
    let h = std::thread::spawn(move || {
        verif::set_actor(101);
        let mut agent = Agent::new();
        agent.handles.insert(2, Handle::R(rx0));
        while let Ok(Some(op)) = crx.recv() {
            let r = agent.exec(&op);
            if rtx.send(r).is_err() {
                break;
            }
        }
        drop(agent);
    });
    Remote::Thread(ctx, rrx, h)
}

/// Process form: the child creates channel 0, keeps its receiver (handle 2) and hands the sender
/// to us through a one-shot server.
fn spawn_process_agent() -> (Remote, IpcSender<Msg>) {
    let (server, name) = IpcOneShotServer::<IpcSender<Msg>>::new().unwrap();
    let exe = std::env::current_exe().unwrap();
    let mut child = Command::new(exe)
        .arg("agent")
        .arg(&name)
        .stdin(Stdio::piped())
        .stdout(Stdio::piped())
        .spawn()
        .expect("spawn agent");
    let stdin = child.stdin.take().unwrap();
    let stdout = BufReader::new(child.stdout.take().unwrap());
    let (_rx, tx0) = server.accept().expect("accept from agent");
    (Remote::Process(child, stdin, stdout), tx0)
}

pub fn agent_main(name: &str) {
    die_with_parent();
    verif::init();
    verif::set_actor(101);
    let (tx0, rx0) = ipc::channel::<Msg>().unwrap();
    {
        let boot: IpcSender<IpcSender<Msg>> = IpcSender::connect(name.to_string()).unwrap();
        boot.send(tx0).unwrap();
    }
    let mut agent = Agent::new();
    agent.handles.insert(2, Handle::R(rx0));
    let stdin = std::io::stdin();
    for line in stdin.lock().lines() {
        let line = match line {
            Ok(l) => l,
            Err(_) => break,
        };
        let op: Value = match serde_json::from_str(&line) {
            Ok(v) => v,
            Err(_) => break,
        };
        let r = agent.exec(&op);
        out_line(&r);
    }
    // stdin closed: process exit drops everything
}

fn start_watchdog() {
    std::thread::spawn(|| {
        let mut last = PROGRESS.load(Ordering::SeqCst);
        let mut idle = 0;
        loop {
            std::thread::sleep(Duration::from_secs(1));
            let now = PROGRESS.load(Ordering::SeqCst);
            if now == last {
                idle += 1;
                if idle >= 20 {
                    println!("{}", json!({"hang": true}));
                    eprintln!("HANG: no progress for 20 s");
                    std::process::exit(3);
                }
            } else {
                idle = 0;
                last = now;
            }
        }
    });
}

type Blocker = (
    i64,
    mpsc::Receiver<(String, Handle)>,
);

/// Park a thread in a blocking (or long timed) receive on receiver `h`, which the model says is
/// idle and connected now and will be disconnected by the next operation.
fn start_blocker(a0: &mut Agent, h: i64, variant: usize) -> Option<Blocker> {
    let hd = a0.handles.remove(&h)?;
    let (tx, rx) = mpsc::channel();
    std::thread::spawn(move || {
        verif::set_actor(50);
        let res = match &hd {
            Handle::R(r) => {
                if variant % 2 == 0 {
                    match r.recv() {
                        Ok(m) => format!("msg {}", m.tag),
                        Err(IpcError::Disconnected) => "disc".to_string(),
                        Err(e) => format!("error {:?}", e),
                    }
                } else {
                    match r.try_recv_timeout(Duration::from_secs(15)) {
                        Ok(m) => format!("msg {}", m.tag),
                        Err(TryRecvError::Empty) => "empty".to_string(),
                        Err(TryRecvError::IpcError(IpcError::Disconnected)) => "disc".to_string(),
                        Err(e) => format!("error {:?}", e),
                    }
                }
            },
            Handle::BR(r) => match r.recv() {
                Ok(_) => "msg".to_string(),
                Err(IpcError::Disconnected) => "disc".to_string(),
                Err(e) => format!("error {:?}", e),
            },
            _ => "not a receiver".to_string(),
        };
        let _ = tx.send((res, hd));
    });
    Some((h, rx))
}

pub fn run(mode: &str) {
    raise_nofile();
    verif::init();
    // C09: the library must not rely on SIGPIPE being ignored (the Rust runtime ignores it)
    unsafe {
        libc::signal(libc::SIGPIPE, libc::SIG_DFL);
    }
    start_watchdog();
    let stdin = std::io::stdin();
    for line in stdin.lock().lines() {
        let line = line.unwrap();
        if line.trim().is_empty() {
            continue;
        }
        let b: Value = serde_json::from_str(&line).expect("bad behaviour json");
        let id = geti(&b, "id");
        let ops = b["ops"].as_array().cloned().unwrap_or_default();
        let two = ops.iter().any(|o| geti(o, "a") == 1) || b.get("agents") == Some(&json!(2));
        // announce before running: if the process dies, the driver knows where
        out_line(&json!({"begin": id}));
        let fds_before = list_fds().len();
        let maps_before = list_shared_maps().len();
        let lsfd_at = if std::env::var("VERIF_LSFD").is_ok() && id % 7 == 0 { Some(ops.len() / 2) } else { None };
        // C09/C11 across exec: with "bystander" set, an unrelated long-lived child process is started after every
        // receipt of a message with attachments; in the ideal model it holds nothing, so no result may change
        let want_bystanders = b.get("bystander").and_then(|v| v.as_bool()).unwrap_or(false);
        let mut bystanders: Vec<std::process::Child> = Vec::new();
        let mut a0 = Agent::new();
        let mut a1 = Remote::None;
        if two {
            if mode == "process" {
                let (r, tx0) = spawn_process_agent();
                a1 = r;
                a0.handles.insert(1, Handle::S(tx0));
            } else {
                let (tx0, rx0) = ipc::channel::<Msg>().unwrap();
                a0.handles.insert(1, Handle::S(tx0));
                a1 = spawn_thread_agent(rx0);
            }
        } else {
            let (tx0, rx0) = ipc::channel::<Msg>().unwrap();
            a0.handles.insert(1, Handle::S(tx0));
            a0.handles.insert(2, Handle::R(rx0));
        }
        let mut verdict = json!({"id": id, "ok": true, "steps": ops.len()});
        let mut a1_opt = Some(a1);
        let wakes: Vec<Vec<i64>> = b
            .get("wakes")
            .and_then(|w| w.as_array())
            .map(|w| {
                w.iter()
                    .map(|x| {
                        x.as_array()
                            .map(|v| v.iter().filter_map(|y| y.as_i64()).collect())
                            .unwrap_or_default()
                    })
                    .collect()
            })
            .unwrap_or_default();
        let mut woken = 0;
        'ops: for (i, op) in ops.iter().enumerate() {
            PROGRESS.fetch_add(1, Ordering::SeqCst);
            if lsfd_at == Some(i) {
                // C11: nothing the library created or received may be inherited by an unrelated child
                if let Some(why) = inherited_by_child() {
                    verdict = json!({"id": id, "ok": false, "step": i, "op": op, "why": why});
                    break 'ops;
                }
            }
            // C03, racing half: receives already blocked when the last sender goes away
            let mut blockers: Vec<Blocker> = Vec::new();
            if let Some(ws) = wakes.get(i) {
                for &h in ws {
                    if let Some(bl) = start_blocker(&mut a0, h, i + h as usize) {
                        blockers.push(bl);
                    }
                }
                if !blockers.is_empty() {
                    std::thread::sleep(Duration::from_millis(15));
                    for (h, rx) in blockers.iter() {
                        if let Ok((res, _hd)) = rx.try_recv() {
                            verdict = json!({"id": id, "ok": false, "step": i, "op": op,
                                "why": format!("a blocking receive on handle {} returned '{}' while the model says the channel is connected and idle", h, res)});
                            break 'ops;
                        }
                    }
                }
            }
            let obs = if gets(op, "op") == "exit" {
                if let Some(r) = a1_opt.take() {
                    r.finish();
                }
                json!({})
            } else if geti(op, "a") == 1 {
                match a1_opt.as_mut() {
                    Some(r) => r.exec(op),
                    None => json!({"error": "agent 1 has exited"}),
                }
            } else {
                a0.exec(op)
            };
            if let Some(why) = mismatch(op, &obs) {
                verdict = json!({"id": id, "ok": false, "step": i, "op": op, "observed": obs, "why": why});
                break;
            }
            if want_bystanders
                && bystanders.len() < 3
                && matches!(gets(op, "op"), "recv" | "drain")
                && gets(op, "res") == "msg"
                && op.get("slots").and_then(|s| s.as_array()).map(|s| !s.is_empty()).unwrap_or(false)
            {
                if let Ok(exe) = std::env::current_exe() {
                    if let Ok(mut c) = Command::new(exe)
                        .arg("idle")
                        .stdin(Stdio::null())
                        .stdout(Stdio::piped())
                        .stderr(Stdio::null())
                        .spawn()
                    {
                        // spawn() returns when the child has released the parent's memory, which the kernel does BEFORE
                        // it closes the child's close-on-exec descriptors: wait for the new program's first output, so
                        // that what the child still holds afterwards is what it really inherited
                        if let Some(o) = c.stdout.as_mut() {
                            use std::io::Read;
                            let mut one = [0u8; 1];
                            let _ = o.read(&mut one);
                        }
                        bystanders.push(c);
                    }
                }
            }
            for (h, rx) in blockers {
                match rx.recv_timeout(Duration::from_secs(10)) {
                    Ok((res, hd)) => {
                        a0.handles.insert(h, hd);
                        woken += 1;
                        if res != "disc" {
                            verdict = json!({"id": id, "ok": false, "step": i, "op": op,
                                "why": format!("a receive blocked on handle {} returned '{}' when the last sender went away; the model says 'disc'", h, res)});
                            break 'ops;
                        }
                    },
                    Err(_) => {
                        verdict = json!({"id": id, "ok": false, "step": i, "op": op,
                            "why": format!("a receive blocked on handle {} did not wake up within 10 s after the last sender went away", h)});
                        break 'ops;
                    },
                }
            }
        }
        verdict["woken"] = json!(woken);
        verdict["bystanders"] = json!(bystanders.len());
        for mut c in bystanders {
            let _ = c.kill();
            let _ = c.wait();
        }
        drop(a0);
        if let Some(r) = a1_opt.take() {
            r.finish();
        }
        let fds_after = list_fds().len();
        let maps_after = list_shared_maps().len();
        verdict["fd_delta"] = json!(fds_after as i64 - fds_before as i64);
        verdict["map_delta"] = json!(maps_after as i64 - maps_before as i64);
        verif::emit(
            "quiesce",
            &[("fd", fds_after as i64 - fds_before as i64), ("len", maps_after as i64 - maps_before as i64)],
        );
        out_line(&verdict);
    }
}
