//! B3 driver for Fifo.tla / FifoTrace.tla (C02 at the API level): free-running senders - threads on
//! their own handle or on a clone, and spawned processes - against a receiver that is eager, delayed,
//! polling with try_recv, polling with try_recv_timeout, or sitting behind a receiver set.
//!
//! `vharness fifo`: stdin = one scenario per line
//!   {"id":N,"seed":S,"senders":[{"kind":"thread"|"clone"|"proc","lens":[100,9000,..]},..],"receiver":"eager"|..}
//! Every send is bracketed by `f.call` / `f.ret` events, every delivery is an `f.recv` event; all
//! events carry one sequence number shared by all processes, so that "ret(x) before call(y)" in the
//! trace means x returned before y began.  stdout = one JSON line per scenario.

use crate::common::*;
use ipc_channel::ipc::{self, IpcOneShotServer, IpcReceiver, IpcReceiverSet, IpcSelectionResult, IpcSender, TryRecvError};
use rand::rngs::StdRng;
use rand::{Rng, SeedableRng};
use serde_json::{json, Value};
use std::io::{BufRead, BufReader, Write};
use std::process::{Command, Stdio};
use std::sync::{Arc, Barrier};
use std::time::Duration;

fn jitter(rng: &mut StdRng) {
    match rng.gen_range(0..8) {
        0 => std::thread::yield_now(),
        1 => std::thread::sleep(Duration::from_micros(rng.gen_range(1..200))),
        2 => std::thread::sleep(Duration::from_micros(rng.gen_range(200..1500))),
        _ => {},
    }
}

fn tag(s: i64, j: i64) -> u64 {
    (s * 1000 + j) as u64
}

fn send_all(s: i64, seed: u64, lens: &[i64], tx: IpcSender<Vec<u8>>) {
    verif::set_actor(s);
    let mut rng = StdRng::seed_from_u64(seed.wrapping_mul(31).wrapping_add(s as u64));
    for (i, len) in lens.iter().enumerate() {
        let j = i as i64 + 1;
        jitter(&mut rng);
        // bincode's length prefix takes 8 bytes of the message
        let data = payload(tag(s, j), (*len as usize).max(16) - 8);
        verif::emit("f.call", &[("s", s), ("j", j)]);
        let ok = tx.send(data).is_ok();
        verif::emit("f.ret", &[("s", s), ("j", j), ("ok", ok as i64)]);
    }
    jitter(&mut rng);
    // emitted before the handle goes: the receiver may learn of the disconnection before this thread runs again
    verif::emit("f.drop", &[("s", s)]);
    drop(tx);
}

/// `vharness fifo-child <server-name> <s> <seed> <len,len,..>`
pub fn child_main(args: &[String]) {
    die_with_parent();
    verif::init();
    // the library must not rely on SIGPIPE being ignored (the Rust runtime ignores it; a C host program does not)
    unsafe {
        libc::signal(libc::SIGPIPE, libc::SIG_DFL);
    }

    let name = args[0].clone();
    let s: i64 = args[1].parse().unwrap();
    let seed: u64 = args[2].parse().unwrap();
    let lens: Vec<i64> = args[3].split(',').filter(|x| !x.is_empty()).map(|x| x.parse().unwrap()).collect();
    let (btx, brx) = ipc::channel::<IpcSender<Vec<u8>>>().unwrap();
    {
        let boot: IpcSender<IpcSender<IpcSender<Vec<u8>>>> = IpcSender::connect(name).unwrap();
        boot.send(btx).unwrap();
    }
    let tx = brx.recv().unwrap();
    drop(brx);
    println!("READY");
    let _ = std::io::stdout().flush();
    let mut line = String::new();
    let _ = std::io::stdin().lock().read_line(&mut line);
    send_all(s, seed, &lens, tx);
    println!("DONE");
}

pub fn run() {
    raise_nofile();
    verif::init();
    // the library must not rely on SIGPIPE being ignored (the Rust runtime ignores it; a C host program does not)
    unsafe {
        libc::signal(libc::SIGPIPE, libc::SIG_DFL);
    }

    install_panic_recorder();
    // warm-up: lazily created process-wide state is not attributed to the first scenario
    {
        let (tx, rx) = ipc::channel::<Vec<u8>>().unwrap();
        tx.send(vec![0; 16]).unwrap();
        let _ = rx.recv();
    }
    for sc in read_json_lines() {
        let sc2 = sc.clone();
        let id = geti(&sc, "id");
        let v = match with_watchdog(60_000, move || scenario(&sc2)) {
            Ok(Ok(v)) => v,
            Ok(Err(_)) => json!({"id": id, "panic": true}),
            Err(()) => json!({"id": id, "hang": true}),
        };
        let hang = v.get("hang").and_then(|h| h.as_bool()).unwrap_or(false);
        out_line(&v);
        if hang {
            // threads of the abandoned scenario may still emit: do not mix them into the next one
            std::process::exit(3);
        }
    }
}

fn classify(d: &[u8]) -> (i64, i64, bool) {
    let t = if d.len() >= 8 {
        u64::from_le_bytes(d[..8].try_into().unwrap())
    } else {
        0
    };
    ((t / 1000) as i64, (t % 1000) as i64, d == &payload(t, d.len())[..])
}

fn scenario(sc: &Value) -> Value {
    let id = geti(sc, "id");
    let seed = geti(sc, "seed") as u64;
    let senders = sc["senders"].as_array().cloned().unwrap_or_default();
    let mode = gets(sc, "receiver").to_string();
    let n = senders.len();
    verif::set_actor(0);
    verif::emit("f.scenario", &[("id", id), ("n", n as i64)]);
    let (tx, rx) = ipc::channel::<Vec<u8>>().unwrap();
    let nthreads = senders.iter().filter(|s| !matches!(gets(s, "kind"), "proc" | "fork")).count();
    let mut forked: Vec<libc::pid_t> = Vec::new();
    let mut go_pipe = [0 as libc::c_int; 2];
    if senders.iter().any(|s| gets(s, "kind") == "fork") {
        // the forking thread has already sent a large message somewhere else: whatever per-thread or per-process
        // state the transport keeps for fragmented sends exists before the fork and is inherited by the children
        let (wtx, wrx) = ipc::channel::<Vec<u8>>().unwrap();
        #[cfg(not(feature = "inprocess"))]
        let big = 3 * ipc_channel::platform::verif_constants(4096)[1];
        #[cfg(feature = "inprocess")]
        let big = 1 << 20;
        let h = std::thread::spawn(move || wrx.recv().map(|d| d.len()));
        wtx.send(payload(9, big)).unwrap();
        let _ = h.join();
        unsafe {
            libc::pipe(go_pipe.as_mut_ptr());
        }
    }
    let start = Arc::new(Barrier::new(nthreads + 1));
    let mut threads = Vec::new();
    let mut children = Vec::new();
    for (i, sd) in senders.iter().enumerate() {
        let s = i as i64 + 1;
        let lens: Vec<i64> = sd["lens"].as_array().map(|a| a.iter().filter_map(|x| x.as_i64()).collect()).unwrap_or_default();
        match gets(sd, "kind") {
            "fork" => {
                // fork(2), no exec: the child continues with a copy of this thread and of every descriptor
                let mine = tx.clone();
                let pid = unsafe { libc::fork() };
                if pid == 0 {
                    die_with_parent();
                    unsafe {
                        libc::close(go_pipe[1]);
                        let mut b = [0u8; 1];
                        libc::read(go_pipe[0], b.as_mut_ptr() as *mut libc::c_void, 1);
                    }
                    send_all(s, seed, &lens, mine);
                    unsafe { libc::_exit(0) };
                }
                drop(mine);
                forked.push(pid);
            },
            "proc" => {
                let (server, name) = IpcOneShotServer::<IpcSender<IpcSender<Vec<u8>>>>::new().unwrap();
                let exe = std::env::current_exe().unwrap();
                let mut child = Command::new(exe)
                    .arg("fifo-child")
                    .arg(&name)
                    .arg(s.to_string())
                    .arg(seed.to_string())
                    .arg(lens.iter().map(|x| x.to_string()).collect::<Vec<_>>().join(","))
                    .stdin(Stdio::piped())
                    .stdout(Stdio::piped())
                    .spawn()
                    .expect("spawn fifo-child");
                let (_r, btx) = server.accept().expect("accept");
                btx.send(tx.clone()).unwrap();
                drop(btx);
                let mut out = BufReader::new(child.stdout.take().unwrap());
                let mut line = String::new();
                let _ = out.read_line(&mut line);
                children.push((child, out));
            },
            kind => {
                // "thread": a descriptor of its own (a handle that went through a channel);
                // "clone": a clone sharing the descriptor of the original handle
                let mine = if kind == "thread" {
                    let (ctx, crx) = ipc::channel::<IpcSender<Vec<u8>>>().unwrap();
                    ctx.send(tx.clone()).unwrap();
                    crx.recv().unwrap()
                } else {
                    tx.clone()
                };
                let start = start.clone();
                threads.push(std::thread::spawn(move || {
                    start.wait();
                    send_all(s, seed, &lens, mine);
                }));
            },
        }
    }
    drop(tx);
    // go
    if !forked.is_empty() {
        unsafe {
            libc::close(go_pipe[0]);
            libc::close(go_pipe[1]);
        }
    }
    for (child, _) in children.iter_mut() {
        let _ = child.stdin.as_mut().unwrap().write_all(b"GO\n");
        let _ = child.stdin.as_mut().unwrap().flush();
    }
    start.wait();
    let mut rng = StdRng::seed_from_u64(seed ^ 0x5eed);
    let mut got = 0i64;
    let mut bad = Vec::new();
    let mut record = |d: &[u8], got: &mut i64, bad: &mut Vec<Value>| {
        let (s, j, intact) = classify(d);
        verif::emit("f.recv", &[("s", s), ("j", j), ("intact", intact as i64), ("len", d.len() as i64)]);
        *got += 1;
        if !intact {
            bad.push(json!([s, j, d.len()]));
        }
    };
    let mut error = None;
    match mode.as_str() {
        "set" | "set-late" => {
            let mut set = IpcReceiverSet::new().unwrap();
            if mode == "set-late" {
                // everything may be queued, and every sender gone, before the set looks for the first time
                std::thread::sleep(Duration::from_millis(rng.gen_range(20..60)));
            }
            // an idle second member keeps the set from being trivial
            let (idle_tx, idle_rx) = ipc::channel::<Vec<u8>>().unwrap();
            let _idle = set.add(idle_rx).unwrap();
            let me = set.add(rx).unwrap();
            'outer: loop {
                match set.select() {
                    Ok(results) => {
                        for r in results {
                            match r {
                                IpcSelectionResult::MessageReceived(rid, m) if rid == me => match m.to::<Vec<u8>>() {
                                    Ok(d) => record(&d, &mut got, &mut bad),
                                    Err(e) => {
                                        error = Some(format!("undecodable message from the set: {:?}", e));
                                    },
                                },
                                IpcSelectionResult::ChannelClosed(rid) if rid == me => {
                                    verif::emit("f.disc", &[]);
                                    break 'outer;
                                },
                                _ => {},
                            }
                        }
                    },
                    Err(e) => {
                        error = Some(format!("select failed: {:?}", e));
                        break;
                    },
                }
                if rng.gen_range(0..4) == 0 {
                    jitter(&mut rng);
                }
            }
            drop(idle_tx);
        },
        _ => {
            if mode == "delayed" {
                std::thread::sleep(Duration::from_millis(rng.gen_range(10..40)));
            }
            loop {
                let r = match mode.as_str() {
                    "try" => rx.try_recv(),
                    "timeout" => rx.try_recv_timeout(Duration::from_micros(rng.gen_range(0..3000))),
                    "mixed" => match rng.gen_range(0..3) {
                        0 => rx.try_recv(),
                        1 => rx.try_recv_timeout(Duration::from_micros(rng.gen_range(0..2000))),
                        _ => rx.recv().map_err(TryRecvError::IpcError),
                    },
                    _ => rx.recv().map_err(TryRecvError::IpcError),
                };
                match r {
                    Ok(d) => record(&d, &mut got, &mut bad),
                    Err(TryRecvError::Empty) => {
                        if mode == "try" {
                            jitter(&mut rng);
                        }
                    },
                    Err(TryRecvError::IpcError(ipc::IpcError::Disconnected)) => {
                        verif::emit("f.disc", &[]);
                        break;
                    },
                    Err(e) => {
                        error = Some(format!("receive failed: {:?}", e));
                        break;
                    },
                }
                if mode == "delayed" && rng.gen_range(0..3) == 0 {
                    jitter(&mut rng);
                }
            }
        },
    }
    for h in threads {
        let _ = h.join();
    }
    for pid in forked {
        let mut st = 0;
        unsafe {
            libc::waitpid(pid, &mut st, 0);
        }
    }
    for (mut child, mut out) in children {
        let mut line = String::new();
        let _ = out.read_line(&mut line);
        let _ = child.wait();
    }
    verif::emit("f.end", &[("id", id)]);
    json!({"id": id, "hang": false, "received": got, "altered": bad, "error": error})
}

#[allow(dead_code)]
fn _unused(_: IpcReceiver<Vec<u8>>) {}
