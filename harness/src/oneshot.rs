//! B1 replay of `OneShot.tla` behaviours.
//!
//! `vharness oneshot [thread|process]`: stdin = {"id":N,"ops":[...]} per line (TLC's log).
//! `vharness oneshot-client`: the process form of a client (commands on stdin).

use crate::common::*;
use ipc_channel::ipc::{self, IpcError, IpcOneShotServer, IpcReceiver, IpcSender, IpcSharedMemory, TryRecvError};
use serde::{Deserialize, Serialize};
use serde_json::{json, Value};
use std::collections::{HashMap, HashSet};
use std::io::{BufRead, BufReader, Write};
use std::process::{Child, ChildStdin, ChildStdout, Command, Stdio};
use std::time::Duration;

#[derive(Serialize, Deserialize)]
pub struct OMsg {
    x: u64,
    pad: Vec<u8>,
    att: Option<IpcSharedMemory>,
}

fn make(x: u64, big: bool, att: bool) -> OMsg {
    OMsg {
        x,
        pad: payload(x, if big { crate::chan::big_pad() } else { 5 }),
        att: if att { Some(IpcSharedMemory::from_bytes(&payload(x + 50, 100 + x as usize))) } else { None },
    }
}

fn check(m: &OMsg, x: u64, big: bool, att: bool) -> Option<String> {
    if m.x != x {
        return Some(format!("got message {} where the model delivers {}", m.x, x));
    }
    if m.pad != payload(x, if big { crate::chan::big_pad() } else { 5 }) {
        return Some("payload altered".into());
    }
    match (&m.att, att) {
        (Some(r), true) if &r[..] == &payload(x + 50, 100 + x as usize)[..] => None,
        (None, false) => None,
        _ => Some("attachment missing or altered".into()),
    }
}

enum Client {
    None,
    Local(Option<IpcSender<OMsg>>),
    Proc(Child, ChildStdin, BufReader<ChildStdout>),
}

fn ask(stdin: &mut ChildStdin, stdout: &mut BufReader<ChildStdout>, cmd: &Value) -> Value {
    if writeln!(stdin, "{}", cmd).is_err() || stdin.flush().is_err() {
        return json!({"error": "client process gone"});
    }
    let mut line = String::new();
    match stdout.read_line(&mut line) {
        Ok(n) if n > 0 => serde_json::from_str(&line).unwrap_or(json!({"error": "bad answer"})),
        _ => json!({"error": "client process died"}),
    }
}

pub fn client_main() {
    die_with_parent();
    verif::init();
    unsafe {
        libc::signal(libc::SIGPIPE, libc::SIG_DFL);
    }
    let mut tx: Option<IpcSender<OMsg>> = None;
    // listening sockets this process was born with: the rendezvous socket of a server must not leak into
    // processes spawned while the server exists
    let mut listeners = 0;
    for (fd, target) in list_fds() {
        if fd > 2 && target.starts_with("socket:") {
            let mut v: libc::c_int = 0;
            let mut l = std::mem::size_of::<libc::c_int>() as libc::socklen_t;
            let r = unsafe { libc::getsockopt(fd, libc::SOL_SOCKET, libc::SO_ACCEPTCONN, &mut v as *mut _ as *mut libc::c_void, &mut l) };
            if r == 0 && v == 1 {
                listeners += 1;
            }
        }
    }
    for line in std::io::stdin().lock().lines() {
        let line = match line {
            Ok(l) => l,
            Err(_) => break,
        };
        let cmd: Value = match serde_json::from_str(&line) {
            Ok(v) => v,
            Err(_) => break,
        };
        let r = match gets(&cmd, "op") {
            "connect" => match IpcSender::<OMsg>::connect(gets(&cmd, "name").to_string()) {
                Ok(s) => {
                    tx = Some(s);
                    json!({"res": "ok", "listeners": listeners})
                },
                Err(e) => json!({"res": "err", "detail": format!("{:?}", e), "listeners": listeners}),
            },
            "send" => match tx.as_ref() {
                Some(s) => match s.send(make(geti(&cmd, "x") as u64, cmd["big"].as_bool().unwrap_or(false), cmd["att"].as_bool().unwrap_or(false))) {
                    Ok(()) => json!({"res": "ok"}),
                    Err(e) => json!({"res": "err", "detail": format!("{:?}", e)}),
                },
                None => json!({"error": "not connected"}),
            },
            "runahead" => match tx.as_ref() {
                // many multi-packet messages in a row, far more than the kernel queues: the sends block until the
                // server has accepted and reads
                Some(s) => {
                    let (x0, n) = (geti(&cmd, "x") as u64, geti(&cmd, "n") as u64);
                    let mut res = json!({"res": "ok", "sent": n});
                    for k in 0..n {
                        if let Err(e) = s.send(make(x0 + k, true, false)) {
                            res = json!({"res": "err", "sent": k, "detail": format!("{:?}", e)});
                            break;
                        }
                    }
                    res
                },
                None => json!({"error": "not connected"}),
            },
            "exit" => {
                out_line(&json!({"res": "bye"}));
                std::process::exit(0);
            },
            _ => json!({"error": "unknown"}),
        };
        out_line(&r);
    }
}

struct Srv {
    server: Option<IpcOneShotServer<OMsg>>,
    name: String,
    client: Client,
    rx: Option<IpcReceiver<OMsg>>,
    accepting: Option<std::sync::mpsc::Receiver<Result<(IpcReceiver<OMsg>, OMsg), String>>>,
    accept_thread: Option<std::thread::JoinHandle<()>>,
}

fn fs_state(name: &str) -> (bool, bool) {
    let p = std::path::Path::new(name);
    (p.exists(), p.parent().map(|d| d.exists()).unwrap_or(false))
}

/// `vharness oneshot forked`: the behaviours are executed (client = thread) in a fork(2)ed child of a process
/// that has used the library before - whatever the library caches per process (its pid for names, lazily
/// created sockets) is inherited stale by the child.
pub fn run_forked() {
    verif::init();
    {
        let (server, _name) = IpcOneShotServer::<OMsg>::new().expect("warm-up server");
        drop(server);
        let m = IpcSharedMemory::from_bytes(&[1, 2, 3]);
        let (tx, rx) = ipc_channel::ipc::channel::<IpcSharedMemory>().unwrap();
        tx.send(m).unwrap();
        let _ = rx.recv();
    }
    let pid = unsafe { libc::fork() };
    if pid == 0 {
        die_with_parent();
        run("thread");
        unsafe { libc::_exit(0) };
    }
    let mut st = 0;
    unsafe {
        libc::waitpid(pid, &mut st, 0);
    }
}

pub fn run(mode: &str) {
    raise_nofile();
    verif::init();
    unsafe {
        libc::signal(libc::SIGPIPE, libc::SIG_DFL);
    }
    let mut all_names: HashSet<String> = HashSet::new();
    for line in std::io::stdin().lock().lines() {
        let line = line.unwrap();
        if line.trim().is_empty() {
            continue;
        }
        let b: Value = serde_json::from_str(&line).expect("bad json");
        let id = geti(&b, "id");
        out_line(&json!({"begin": id}));
        let fds_before = list_fds().len();
        let v = behaviour(&b, mode, &mut all_names);
        let mut v = v;
        let fds_after = list_fds().len();
        if v["ok"] == json!(true) && fds_after != fds_before {
            v = json!({"id": id, "ok": false, "why": format!("descriptors before {} after {}: something of the rendezvous remains", fds_before, fds_after)});
        }
        out_line(&v);
    }
}

fn behaviour(b: &Value, mode: &str, all_names: &mut HashSet<String>) -> Value {
    let id = geti(b, "id");
    let ops = b["ops"].as_array().cloned().unwrap_or_default();
    let mut srvs: HashMap<i64, Srv> = HashMap::new();
    let fail = |step: usize, op: &Value, why: String| json!({"id": id, "ok": false, "step": step, "op": op, "why": why});
    for (n, op) in ops.iter().enumerate() {
        let i = geti(op, "i");
        let name = gets(op, "op");
        match name {
            "new" => {
                let (server, sname) = match IpcOneShotServer::<OMsg>::new() {
                    Ok(x) => x,
                    Err(e) => return fail(n, op, format!("server creation failed: {:?}", e)),
                };
                if !all_names.insert(sname.clone()) {
                    return fail(n, op, format!("name {} was issued before", sname));
                }
                #[cfg(not(feature = "inprocess"))]
                {
                    let (p, d) = fs_state(&sname);
                    if !p || !d {
                        return fail(n, op, "socket path missing after creation".into());
                    }
                }
                srvs.insert(i, Srv { server: Some(server), name: sname, client: Client::None, rx: None, accepting: None, accept_thread: None });
            },
            "connect" => {
                let s = srvs.get_mut(&i).unwrap();
                let res = if mode == "process" {
                    let exe = std::env::current_exe().unwrap();
                    let mut child = Command::new(exe).arg("oneshot-client").stdin(Stdio::piped()).stdout(Stdio::piped()).spawn().expect("spawn client");
                    let mut stdin = child.stdin.take().unwrap();
                    let mut stdout = BufReader::new(child.stdout.take().unwrap());
                    let r = ask(&mut stdin, &mut stdout, &json!({"op": "connect", "name": s.name}));
                    s.client = Client::Proc(child, stdin, stdout);
                    if geti(&r, "listeners") > 0 {
                        return fail(n, op, format!(
                            "a process spawned while the server existed was born holding {} listening socket(s): the rendezvous descriptor outlives accept/drop there",
                            geti(&r, "listeners")));
                    }
                    gets(&r, "res").to_string()
                } else {
                    match IpcSender::<OMsg>::connect(s.name.clone()) {
                        Ok(tx) => {
                            s.client = Client::Local(Some(tx));
                            "ok".to_string()
                        },
                        Err(_) => "err".to_string(),
                    }
                };
                if res != gets(op, "res") {
                    return fail(n, op, format!("connect: model says {}, code says {}", gets(op, "res"), res));
                }
            },
            "send" => {
                let s = srvs.get_mut(&i).unwrap();
                let (x, big, att) = (geti(op, "x") as u64, op["big"].as_bool().unwrap_or(false), op["att"].as_bool().unwrap_or(false));
                let res = match &mut s.client {
                    Client::Local(Some(tx)) => if tx.send(make(x, big, att)).is_ok() { "ok".to_string() } else { "err".to_string() },
                    Client::Proc(_, stdin, stdout) => gets(&ask(stdin, stdout, &json!({"op": "send", "x": x, "big": big, "att": att})), "res").to_string(),
                    _ => return fail(n, op, "no client".into()),
                };
                if res != gets(op, "res") {
                    return fail(n, op, format!("send: model says {}, code says {}", gets(op, "res"), res));
                }
            },
            "exit" => {
                let s = srvs.get_mut(&i).unwrap();
                match std::mem::replace(&mut s.client, Client::None) {
                    Client::Local(tx) => drop(tx),
                    Client::Proc(mut child, mut stdin, mut stdout) => {
                        let _ = ask(&mut stdin, &mut stdout, &json!({"op": "exit"}));
                        drop(stdin);
                        let _ = child.wait();
                    },
                    Client::None => {},
                }
            },
            "accept.call" => {
                let s = srvs.get_mut(&i).unwrap();
                let server = s.server.take().unwrap();
                let (tx, rx) = std::sync::mpsc::channel();
                let (ttx, trx) = std::sync::mpsc::channel();
                let jh = std::thread::spawn(move || {
                    let _ = ttx.send(unsafe { libc::syscall(libc::SYS_gettid) } as i64);
                    let r = server.accept().map_err(|e| format!("{:?}", e));
                    let _ = tx.send(r);
                });
                s.accept_thread = Some(jh);
                // wait until the thread sleeps in accept(2)
                let tid = trx.recv().unwrap();
                let mut asleep = false;
                for _ in 0..2000 {
                    if let Ok(sc) = std::fs::read_to_string(format!("/proc/self/task/{}/syscall", tid)) {
                        let nr = sc.split_whitespace().next().and_then(|x| x.parse::<i64>().ok());
                        if matches!(nr, Some(43) | Some(288)) {
                            asleep = true;
                            break;
                        }
                    }
                    std::thread::sleep(Duration::from_micros(200));
                }
                if !asleep {
                    if let Ok(r) = rx.try_recv() {
                        return fail(n, op, format!("accept returned before any client connected: {}", r.is_ok()));
                    }
                }
                s.accepting = Some(rx);
            },
            "accept" | "accept.ret" => {
                let s = srvs.get_mut(&i).unwrap();
                let r = if name == "accept" {
                    let server = s.server.take().unwrap();
                    let name2 = s.name.clone();
                    let _ = name2;
                    match with_watchdog(10_000, move || server.accept().map_err(|e| format!("{:?}", e))) {
                        Ok(Ok(r)) => r,
                        Ok(Err(_)) => return fail(n, op, "accept panicked".into()),
                        Err(()) => return fail(n, op, "accept did not return although a client had connected and sent".into()),
                    }
                } else {
                    let got = s.accepting.take().unwrap().recv_timeout(Duration::from_secs(10));
                    if got.is_ok() {
                        if let Some(jh) = s.accept_thread.take() {
                            let _ = jh.join();
                        }
                    }
                    match got {
                        Ok(r) => r,
                        Err(_) => return fail(n, op, "a blocked accept did not return after the client connected and sent".into()),
                    }
                };
                match r {
                    Ok((rx, m)) => {
                        if let Some(why) = check(&m, geti(op, "x") as u64, op["big"].as_bool().unwrap_or(false), op["att"].as_bool().unwrap_or(false)) {
                            return fail(n, op, format!("accept: {}", why));
                        }
                        s.rx = Some(rx);
                    },
                    Err(e) => return fail(n, op, format!("accept failed: {}", e)),
                }
                #[cfg(not(feature = "inprocess"))]
                {
                    let (p, d) = fs_state(&s.name);
                    if p || d {
                        return fail(n, op, format!("after accept returned the socket path exists={} its directory exists={}", p, d));
                    }
                }
            },
            "runahead" => {
                // process clients only: the command is issued and not waited for
                let s = srvs.get_mut(&i).unwrap();
                match &mut s.client {
                    Client::Proc(_, stdin, _) => {
                        let _ = writeln!(stdin, "{}", json!({"op": "runahead", "x": geti(op, "x"), "n": geti(op, "n")}));
                        let _ = stdin.flush();
                    },
                    _ => return fail(n, op, "runahead needs a process client".into()),
                }
            },
            "sleep" => std::thread::sleep(Duration::from_millis(geti(op, "ms") as u64)),
            "recvn" => {
                let s = srvs.get_mut(&i).unwrap();
                let (from, cnt) = (geti(op, "from") as u64, geti(op, "n") as u64);
                for x in from..from + cnt {
                    let rx = s.rx.take().unwrap();
                    let r = with_watchdog(20_000, move || {
                        let m = rx.recv();
                        (rx, m)
                    });
                    match r {
                        Ok(Ok((rx, Ok(m)))) => {
                            s.rx = Some(rx);
                            if let Some(why) = check(&m, x, true, false) {
                                return fail(n, op, format!("message {} of a client that ran ahead of accept: {}", x, why));
                            }
                        },
                        Ok(Ok((_, Err(e)))) => return fail(n, op, format!(
                            "the receiver from accept ended before message {} of a client that ran ahead: {:?}", x, e)),
                        _ => return fail(n, op, format!("message {} of a client that ran ahead never arrived (20 s)", x)),
                    }
                }
            },
            "collect" => {
                let s = srvs.get_mut(&i).unwrap();
                if let Client::Proc(_, _, stdout) = &mut s.client {
                    let mut line = String::new();
                    let _ = stdout.read_line(&mut line);
                    let v: Value = serde_json::from_str(line.trim()).unwrap_or(json!({"res": "none"}));
                    if gets(&v, "res") != "ok" {
                        return fail(n, op, format!("a send of the client that ran ahead of accept failed: {}", v));
                    }
                }
            },
            "accept.fail" => {
                // the client connected and left without a word: accept must fail (not hang, not panic)
                let s = srvs.get_mut(&i).unwrap();
                let server = s.server.take().unwrap();
                match with_watchdog(10_000, move || server.accept().map(|_| ()).map_err(|e| format!("{:?}", e))) {
                    Ok(Ok(Err(_))) => {},
                    Ok(Ok(Ok(()))) => return fail(n, op, "accept returned a message although the client never sent one".into()),
                    Ok(Err(_)) => return fail(n, op, "accept panicked".into()),
                    Err(()) => return fail(n, op, "accept did not return although the client had connected and gone".into()),
                }
                #[cfg(not(feature = "inprocess"))]
                {
                    let (p, d) = fs_state(&s.name);
                    if p || d {
                        return fail(n, op, format!("after the failed accept the socket path exists={} its directory exists={}", p, d));
                    }
                }
            },
            "recv" => {
                let s = srvs.get_mut(&i).unwrap();
                let got = match s.rx.as_ref().unwrap().try_recv() {
                    Ok(m) => {
                        if gets(op, "res") != "msg" {
                            return fail(n, op, format!("received message {} where the model says {}", m.x, gets(op, "res")));
                        }
                        if let Some(why) = check(&m, geti(op, "x") as u64, op["big"].as_bool().unwrap_or(false), op["att"].as_bool().unwrap_or(false)) {
                            return fail(n, op, why);
                        }
                        "msg"
                    },
                    Err(TryRecvError::Empty) => "empty",
                    Err(TryRecvError::IpcError(IpcError::Disconnected)) => "disc",
                    Err(e) => return fail(n, op, format!("recv failed: {:?}", e)),
                };
                if got != gets(op, "res") {
                    return fail(n, op, format!("recv: model says {}, code says {}", gets(op, "res"), got));
                }
            },
            "dropserver" => {
                let s = srvs.get_mut(&i).unwrap();
                drop(s.server.take());
                #[cfg(not(feature = "inprocess"))]
                {
                    let (p, d) = fs_state(&s.name);
                    if p || d {
                        return fail(n, op, format!("after the server was dropped the socket path exists={} its directory exists={}", p, d));
                    }
                }
            },
            _ => return fail(n, op, "unknown op".into()),
        }
    }
    // tear down: everything the behaviour left alive, synchronously (nothing may finish in the background while
    // the next behaviour is being measured)
    for (_, mut s) in srvs.drain() {
        // the client first: an accept that is waiting for this client's first message ends with its exit
        match std::mem::replace(&mut s.client, Client::None) {
            Client::Proc(mut child, stdin, _) => {
                drop(stdin);
                let _ = child.wait();
            },
            Client::Local(tx) => drop(tx),
            Client::None => {},
        }
        if let Some(acc) = s.accepting.take() {
            if acc.recv_timeout(Duration::from_millis(200)).is_err() {
                // still asleep in accept(2): wake it up with a throw-away client
                if let Ok(tx) = IpcSender::<OMsg>::connect(s.name.clone()) {
                    let _ = tx.send(make(0, false, false));
                }
                let _ = acc.recv_timeout(Duration::from_secs(5));
            }
        }
        if let Some(jh) = s.accept_thread.take() {
            let _ = jh.join();
        }
        drop(s.server.take());
        drop(s.rx.take());
    }
    json!({"id": id, "ok": true})
}
