//! B3 driver for Router.tla / RouterTrace.tla: free-running RouterProxy scenarios with every
//! interesting step recorded (hooks in src/router.rs + the h.* events emitted here).
//!
//! `vharness router`: stdin = one scenario per line
//!   {"id":N,"seed":S,"msgs":[2,1,0],"kinds":["cb","xbeam","cb"],"progs":[[{"op":"add","r":1},{"op":"shutdown"}],[..]],
//!    "dropproxy":false,"presend":[true,false,..]}
//! stdout = one JSON line per scenario with the harness' own observations.

use crate::common::*;
use ipc_channel::ipc::{self, IpcSender};
use ipc_channel::router::RouterProxy;
use rand::rngs::StdRng;
use rand::{Rng, SeedableRng};
use serde_json::{json, Value};
use std::sync::atomic::{AtomicUsize, Ordering};
use std::sync::{Arc, Mutex};
use std::time::Duration;

static GUARDS_ALIVE: std::sync::atomic::AtomicI64 = std::sync::atomic::AtomicI64::new(0);

struct Guard(i64, u64);
impl Drop for Guard {
    fn drop(&mut self) {
        GUARDS_ALIVE.fetch_sub(1, Ordering::SeqCst);
        if self.1 > 0 {
            // a callback that owns something slow to destroy: whatever must happen "after the callback is gone"
            // has to wait for this
            std::thread::sleep(Duration::from_micros(self.1));
        }
        verif::emit("h.guarddrop", &[("r", self.0)]);
    }
}

fn jitter(rng: &mut StdRng) {
    match rng.gen_range(0..6) {
        0 => std::thread::yield_now(),
        1 => std::thread::sleep(Duration::from_micros(rng.gen_range(1..300))),
        2 => std::thread::sleep(Duration::from_micros(rng.gen_range(300..2000))),
        _ => {},
    }
}

pub fn run() {
    raise_nofile();
    verif::init();
    install_panic_recorder();
    for sc in read_json_lines() {
        let v = scenario(&sc);
        out_line(&v);
    }
}

fn scenario(sc: &Value) -> Value {
    let id = geti(sc, "id");
    let seed = geti(sc, "seed") as u64;
    let msgs: Vec<i64> = sc["msgs"].as_array().map(|a| a.iter().filter_map(|x| x.as_i64()).collect()).unwrap_or_default();
    let kinds: Vec<String> = sc["kinds"].as_array().map(|a| a.iter().map(|x| x.as_str().unwrap_or("cb").to_string()).collect()).unwrap_or_default();
    let progs: Vec<Vec<Value>> = sc["progs"].as_array().map(|a| a.iter().map(|p| p.as_array().cloned().unwrap_or_default()).collect()).unwrap_or_default();
    let dropproxy = sc["dropproxy"].as_bool().unwrap_or(false);
    let n = msgs.len();
    verif::set_actor(0);
    verif::emit("h.scenario", &[("id", id), ("routes", n as i64), ("proxies", progs.len() as i64)]);
    GUARDS_ALIVE.store(0, Ordering::SeqCst);
    let fds_before = list_fds().len() as i64;
    // stalls: hold a thread for a while at a hook point, so that the other side of a race gets there first
    // (e.g. the router services shutdown's wake-up before the shutdown message has been queued)
    let stalls: std::collections::HashMap<String, u64> = sc["stalls"]
        .as_object()
        .map(|m| m.iter().filter_map(|(k, v)| v.as_u64().map(|u| (k.clone(), u))).collect())
        .unwrap_or_default();
    if stalls.is_empty() {
        verif::set_gate_hook(None);
    } else {
        verif::set_gate_hook(Some(Box::new(move |site, _| {
            if let Some(us) = stalls.get(site) {
                std::thread::sleep(Duration::from_micros(*us));
            }
        })));
    }

    for r in 1..=n {
        verif::emit("h.route", &[("r", r as i64), ("x", (kinds[r - 1] != "xbeam") as i64)]);
    }
    let proxy = Arc::new(RouterProxy::new());
    let mut rxs = Vec::new();
    let mut sender_threads = Vec::new();
    let calls: Arc<Vec<Mutex<Vec<u64>>>> = Arc::new((0..n).map(|_| Mutex::new(Vec::new())).collect());
    let xbeam: Arc<Mutex<Vec<Option<crossbeam_channel::Receiver<u64>>>>> = Arc::new(Mutex::new((0..n).map(|_| None).collect()));
    let send_errors = Arc::new(AtomicUsize::new(0));
    let start = Arc::new(std::sync::Barrier::new(n + progs.len()));
    for r in 1..=n {
        let (tx, rx) = ipc::channel::<u64>().unwrap();
        rxs.push(Some(rx));
        let cnt = msgs[r - 1];
        // messages queued before the route can possibly be registered
        let presend = sc["presend"].as_array().and_then(|a| a.get(r - 1)).and_then(|b| b.as_i64()).unwrap_or(0).min(cnt);
        let start = start.clone();
        let send_errors = send_errors.clone();
        let burst_after_us = sc["burst_after_us"].as_i64().unwrap_or(0);
        let start_delay: Vec<i64> = sc["start_delay_us"].as_array().map(|a| a.iter().filter_map(|x| x.as_i64()).collect()).unwrap_or_default();
        sender_threads.push(std::thread::spawn(move || {
            verif::set_actor(300 + r as i64);
            let mut rng = StdRng::seed_from_u64(seed * 1000 + r as u64);
            let tx: IpcSender<u64> = tx;
            let mut x = 1;
            while x <= presend {
                verif::emit("h.send", &[("r", r as i64), ("x", x)]);
                if tx.send(x as u64).is_err() {
                    send_errors.fetch_add(1, Ordering::SeqCst);
                }
                verif::emit("h.sent", &[("r", r as i64), ("x", x)]);
                x += 1;
            }
            start.wait();
            if let Some(d) = start_delay.get(r - 1) {
                std::thread::sleep(Duration::from_micros(*d as u64));
            } else if burst_after_us > 0 {
                // let the slow handler start first, then send without pauses
                std::thread::sleep(Duration::from_micros(if r == 1 { 0 } else { burst_after_us as u64 }));
            }
            while x <= cnt {
                if burst_after_us == 0 {
                    jitter(&mut rng);
                }
                verif::emit("h.send", &[("r", r as i64), ("x", x)]);
                if tx.send(x as u64).is_err() {
                    send_errors.fetch_add(1, Ordering::SeqCst);
                }
                verif::emit("h.sent", &[("r", r as i64), ("x", x)]);
                x += 1;
            }
            jitter(&mut rng);
            verif::emit("h.senderdrop", &[("r", r as i64)]);
            drop(tx);
            verif::emit("h.senderdropped", &[("r", r as i64)]);
        }));
    }
    let rxs = Arc::new(Mutex::new(rxs));
    let after_shutdown: Arc<Mutex<Vec<Value>>> = Arc::new(Mutex::new(Vec::new()));
    let mut proxy_threads = Vec::new();
    for (pi, prog) in progs.iter().enumerate() {
        let p = pi as i64 + 1;
        let prog = prog.clone();
        let proxy = proxy.clone();
        let rxs = rxs.clone();
        let kinds = kinds.clone();
        let calls = calls.clone();
        let xbeam = xbeam.clone();
        let start = start.clone();
        let after_shutdown = after_shutdown.clone();
        let xdrops: Vec<bool> = sc["xdrop"].as_array().map(|a| a.iter().map(|x| x.as_bool().unwrap_or(false)).collect()).unwrap_or_default();
        let dropsleeps: Vec<i64> = sc["dropsleep"].as_array().map(|a| a.iter().filter_map(|x| x.as_i64()).collect()).unwrap_or_default();
        let cbsleeps: Vec<i64> = sc["cbsleep"].as_array().map(|a| a.iter().filter_map(|x| x.as_i64()).collect()).unwrap_or_default();
        proxy_threads.push(std::thread::spawn(move || {
            verif::set_actor(200 + p);
            let mut rng = StdRng::seed_from_u64(seed * 77 + p as u64);
            start.wait();
            for op in prog {
                jitter(&mut rng);
                match gets(&op, "op") {
                    "add" => {
                        let r = geti(&op, "r");
                        let rx = rxs.lock().unwrap()[r as usize - 1].take().expect("route added twice");
                        verif::emit("h.add", &[("px", p), ("r", r)]);
                        if kinds[r as usize - 1] == "xbeam" {
                            let xr = proxy.route_ipc_receiver_to_new_crossbeam_receiver(rx);
                            if xdrops.get(r as usize - 1).copied().unwrap_or(false) {
                                // the consumer walks away at once while the IPC sender lives on: its route's messages
                                // have nowhere to go, every other route must not notice
                                verif::emit("h.xdrop", &[("r", r)]);
                                drop(xr);
                            } else {
                                xbeam.lock().unwrap()[r as usize - 1] = Some(xr);
                            }
                        } else {
                            GUARDS_ALIVE.fetch_add(1, Ordering::SeqCst);
                            let guard = Guard(r, dropsleeps.get(r as usize - 1).copied().unwrap_or(0).max(0) as u64);
                            let calls = calls.clone();
                            let cbsleep = cbsleeps.get(r as usize - 1).copied().unwrap_or(0);
                            proxy.add_route(
                                rx.to_opaque(),
                                Box::new(move |m| {
                                    let _g = &guard;
                                    let x = m.to::<u64>().unwrap_or(0);
                                    verif::emit("h.cb", &[("r", r), ("x", x as i64)]);
                                    calls[r as usize - 1].lock().unwrap().push(x);
                                    if cbsleep > 0 && x == 1 {
                                        std::thread::sleep(Duration::from_micros(cbsleep as u64));
                                    }
                                }),
                            );
                        }
                    },
                    "sleep" => std::thread::sleep(Duration::from_micros(geti(&op, "us") as u64)),
                    "shutdown" => {
                        proxy.shutdown();
                        // downstream consumers observe disconnection as soon as shutdown has returned
                        let xs = xbeam.lock().unwrap();
                        for (i, xr) in xs.iter().enumerate() {
                            if let Some(xr) = xr {
                                let mut got = Vec::new();
                                let disc = loop {
                                    match xr.try_recv() {
                                        Ok(v) => got.push(v),
                                        Err(crossbeam_channel::TryRecvError::Disconnected) => break true,
                                        Err(crossbeam_channel::TryRecvError::Empty) => break false,
                                    }
                                };
                                after_shutdown.lock().unwrap().push(json!({"r": i + 1, "p": p, "got": got, "disconnected": disc}));
                            }
                        }
                    },
                    _ => {},
                }
            }
        }));
    }
    let mut hang = false;
    for h in proxy_threads {
        if with_watchdog(20_000, move || h.join()).is_err() {
            hang = true;
        }
    }
    for h in sender_threads {
        if with_watchdog(20_000, move || h.join()).is_err() {
            hang = true;
        }
    }
    if dropproxy && !hang {
        verif::emit("h.dropproxy", &[("px", 1)]);
        match Arc::try_unwrap(proxy) {
            Ok(p) => drop(p),
            Err(_) => {},
        }
        verif::emit("h.proxydropped", &[("px", 1)]);
    } else if !sc["stop"].as_str().map(|s| s == "shutdown").unwrap_or(false) {
        // not a stopping scenario: the router stays alive (its proxy is deliberately leaked)
        std::mem::forget(proxy);
    } else {
        // shut down: the proxy (which holds the sending end of the wake-up channel) goes too
        drop(proxy);
    }
    // once the proxy is gone the router has stopped: every callback is dropped, downstream consumers see the
    // disconnection (the router learns of the drop through its wake-up channel: give it up to 3 s)
    let mut stopped_after_drop = true;
    let mut pre_x: Vec<Vec<u64>> = (0..n).map(|_| Vec::new()).collect();
    if dropproxy && !hang {
        let t0 = std::time::Instant::now();
        loop {
            let cbs = GUARDS_ALIVE.load(Ordering::SeqCst);
            let live_x = xbeam.lock().unwrap().iter().enumerate().filter(|(i, x)| match x {
                Some(xr) => {
                    // drained and disconnected? (what is drained here is kept for the final comparison)
                    loop {
                        match xr.try_recv() {
                            Ok(v) => {
                                pre_x[*i].push(v);
                                continue;
                            },
                            Err(crossbeam_channel::TryRecvError::Disconnected) => break false,
                            Err(crossbeam_channel::TryRecvError::Empty) => break true,
                        }
                    }
                },
                None => false,
            }).count();
            if cbs <= 0 && live_x == 0 {
                break;
            }
            if t0.elapsed() > Duration::from_secs(3) {
                stopped_after_drop = false;
                break;
            }
            std::thread::sleep(Duration::from_millis(5));
        }
    }
    // let the router thread work off what is queued: up to 5 s for everything that was sent to arrive
    // (a router that has been stopped delivers nothing more; then the short wait is all there is)
    let stopping = dropproxy || sc["stop"].as_str().map(|s| s == "shutdown").unwrap_or(false);
    let t0 = std::time::Instant::now();
    while !stopping && !hang && t0.elapsed() < Duration::from_secs(5) {
        let mut all = true;
        for r in 1..=n {
            let have = calls[r - 1].lock().unwrap().len() + xbeam.lock().unwrap()[r - 1].as_ref().map(|x| x.len()).unwrap_or(0);
            if (have as i64) < msgs[r - 1] {
                all = false;
            }
        }
        if all {
            break;
        }
        std::thread::sleep(Duration::from_millis(5));
    }
    std::thread::sleep(Duration::from_millis(120));
    let mut routes = Vec::new();
    for r in 1..=n {
        let c = calls[r - 1].lock().unwrap().clone();
        let mut xgot = std::mem::take(&mut pre_x[r - 1]);
        let mut xdisc = None;
        if let Some(xr) = xbeam.lock().unwrap()[r - 1].as_ref() {
            loop {
                match xr.try_recv() {
                    Ok(v) => xgot.push(v),
                    Err(crossbeam_channel::TryRecvError::Disconnected) => {
                        xdisc = Some(true);
                        break;
                    },
                    Err(crossbeam_channel::TryRecvError::Empty) => {
                        xdisc = Some(false);
                        break;
                    },
                }
            }
        }
        routes.push(json!({"r": r, "calls": c, "xgot": xgot, "xdisc": xdisc}));
    }
    // a stopped router gives back what it held (its receiver set's epoll descriptor, the routed receivers, the
    // wake-up channel): the descriptor count returns to where it was (the thread winds down asynchronously: 2 s)
    let mut fd_delta = 0;
    if stopping && !hang {
        let t0 = std::time::Instant::now();
        loop {
            fd_delta = list_fds().len() as i64 - fds_before;
            if fd_delta <= 0 || t0.elapsed() > Duration::from_secs(2) {
                break;
            }
            std::thread::sleep(Duration::from_millis(5));
        }
    }
    verif::set_gate_hook(None);
    verif::emit("h.scenario.end", &[("id", id)]);
    json!({"id": id, "hang": hang, "stopped_after_drop": stopped_after_drop, "fd_delta": fd_delta, "routes": routes, "after_shutdown": *after_shutdown.lock().unwrap(),
           "send_errors": send_errors.load(Ordering::SeqCst)})
}
