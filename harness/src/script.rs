//! B1 replay of `SideTables.tla` behaviours.
//!
//! `vharness script`: stdin = one case per line, exported by TLC:
//!   {"id":N,"mode":"ser","script":[slot..],"results":[{path,ok}..],"out":[{path,idx,own}..]}
//!   {"id":N,"mode":"de","nch":a,"nshm":b,"refs":[{k,i}..],"outcome":"ok"|"err"}
//!   {"id":N,"mode":"fuzz","ty":t,"bytes":[..],"kinds":["S","R","M"..]}
//! stdout = {"begin":id} then one verdict per case.

use crate::common::*;
use ipc_channel::ipc::{
    self, IpcError, IpcReceiver, IpcSender, IpcSharedMemory, TryRecvError,
};
use serde::ser::{SerializeSeq, SerializeTuple};
use serde::{Deserialize, Serialize, Serializer};
use serde_json::{json, Value};
use std::cell::RefCell;
use std::collections::HashMap;
use std::rc::Rc;

#[derive(Serialize, Deserialize)]
pub enum WireStep {
    D(u64),
    S(IpcSender<u64>),
    R(IpcReceiver<u64>),
    M(IpcSharedMemory),
    N(u8),
}

/// What the harness keeps for each attachment it creates, to probe identity and release.
enum Kept {
    /// we attached a sender; this is the channel's receiver
    Rx(IpcReceiver<u64>),
    /// we attached the receiver; this is the channel's sender
    Tx(IpcSender<u64>),
    /// we attached a region with these bytes
    Bytes(Vec<u8>),
}

struct Ctx {
    /// attachment uid (creation order) of each *visited* attachment slot, in visiting order:
    /// position + 1 is the model's attachment id
    visited: RefCell<Vec<usize>>,
    /// result of every nested send, by path
    nested: RefCell<Vec<(Vec<u64>, bool)>>,
}

pub enum Step {
    D(u64),
    S(usize, IpcSender<u64>),
    R(usize, IpcReceiver<u64>),
    M(usize, IpcSharedMemory),
    F,
    N {
        path: Vec<u64>,
        target: IpcSender<Script>,
        inner: RefCell<Option<Script>>,
        swallow: bool,
    },
}

pub struct Script {
    steps: Vec<Step>,
    ctx: Rc<Ctx>,
}

struct StepSer<'a>(&'a Step, &'a Ctx);

impl Serialize for Script {
    fn serialize<S: Serializer>(&self, serializer: S) -> Result<S::Ok, S::Error> {
        let mut seq = serializer.serialize_seq(Some(self.steps.len()))?;
        for st in &self.steps {
            seq.serialize_element(&StepSer(st, &self.ctx))?;
        }
        seq.end()
    }
}

impl Serialize for StepSer<'_> {
    fn serialize<S: Serializer>(&self, serializer: S) -> Result<S::Ok, S::Error> {
        use serde::ser::Error;
        match self.0 {
            Step::D(x) => serializer.serialize_newtype_variant("WireStep", 0, "D", x),
            Step::S(uid, s) => {
                self.1.visited.borrow_mut().push(*uid);
                serializer.serialize_newtype_variant("WireStep", 1, "S", s)
            },
            Step::R(uid, r) => {
                self.1.visited.borrow_mut().push(*uid);
                serializer.serialize_newtype_variant("WireStep", 2, "R", r)
            },
            Step::M(uid, m) => {
                self.1.visited.borrow_mut().push(*uid);
                serializer.serialize_newtype_variant("WireStep", 3, "M", m)
            },
            Step::F => Err(S::Error::custom("scripted serialisation failure")),
            Step::N {
                path,
                target,
                inner,
                swallow,
            } => {
                let v = inner.borrow_mut().take().expect("nested script visited twice");
                let ok = target.send(v).is_ok();
                self.1.nested.borrow_mut().push((path.clone(), ok));
                if !ok && !*swallow {
                    return Err(S::Error::custom("nested send failed"));
                }
                serializer.serialize_newtype_variant("WireStep", 4, "N", &7u8)
            },
        }
    }
}

struct Built {
    kept: Vec<Kept>,
    /// target receiver by path (None = dropped before the send)
    targets: HashMap<Vec<u64>, Option<IpcReceiver<Vec<WireStep>>>>,
}

fn build(slots: &[Value], path: &[u64], ctx: &Rc<Ctx>, b: &mut Built) -> Script {
    let mut steps = Vec::new();
    let mut n = 0u64;
    for s in slots {
        match gets(s, "k") {
            "D" => steps.push(Step::D(41)),
            "S" => {
                let (tx, rx) = ipc::channel::<u64>().unwrap();
                b.kept.push(Kept::Rx(rx));
                steps.push(Step::S(b.kept.len() - 1, tx));
            },
            "R" => {
                let (tx, rx) = ipc::channel::<u64>().unwrap();
                b.kept.push(Kept::Tx(tx));
                steps.push(Step::R(b.kept.len() - 1, rx));
            },
            "M" => {
                let bytes = payload(1000 + b.kept.len() as u64, 10 + b.kept.len() * 3);
                let m = IpcSharedMemory::from_bytes(&bytes);
                b.kept.push(Kept::Bytes(bytes));
                steps.push(Step::M(b.kept.len() - 1, m));
            },
            "F" => steps.push(Step::F),
            "N" => {
                n += 1;
                let mut p = path.to_vec();
                p.push(n);
                let (tx, rx) = ipc::channel::<Vec<WireStep>>().unwrap();
                let alive = s.get("alive").and_then(|a| a.as_bool()).unwrap_or(true);
                b.targets.insert(p.clone(), if alive { Some(rx) } else { None });
                let inner = build(
                    s.get("inner").and_then(|i| i.as_array()).map(|v| &v[..]).unwrap_or(&[]),
                    &p,
                    ctx,
                    b,
                );
                steps.push(Step::N {
                    path: p,
                    target: tx.to_opaque().to::<Script>(),
                    inner: RefCell::new(Some(inner)),
                    swallow: s.get("swallow").and_then(|a| a.as_bool()).unwrap_or(false),
                });
            },
            other => panic!("bad slot kind {}", other),
        }
    }
    Script {
        steps,
        ctx: ctx.clone(),
    }
}

fn path_of(v: &Value) -> Vec<u64> {
    v.get("path")
        .and_then(|p| p.as_array())
        .map(|a| a.iter().filter_map(|x| x.as_u64()).collect())
        .unwrap_or_default()
}

fn lens() -> [usize; 4] {
    ipc::verif_side_table_lens()
}

/// One serialisation-side case. Returns None if everything conforms, else the reason.
fn run_ser(case: &Value) -> Option<String> {
    let ctx = Rc::new(Ctx {
        visited: RefCell::new(Vec::new()),
        nested: RefCell::new(Vec::new()),
    });
    let mut b = Built {
        kept: Vec::new(),
        targets: HashMap::new(),
    };
    let slots = case["script"].as_array().cloned().unwrap_or_default();
    let (root_tx, root_rx) = ipc::channel::<Vec<WireStep>>().unwrap();
    b.targets.insert(vec![], Some(root_rx));
    let script = build(&slots, &[], &ctx, &mut b);
    let root_tx = root_tx.to_opaque().to::<Script>();

    if lens() != [0, 0, 0, 0] {
        return Some(format!("tables not empty before the case: {:?}", lens()));
    }
    let root_ok = root_tx.send(script).is_ok();
    drop(root_tx);
    let after = lens();

    // results of every send, as the model has them
    let mut observed: HashMap<Vec<u64>, bool> = ctx.nested.borrow().iter().cloned().collect();
    observed.insert(vec![], root_ok);
    for r in case["results"].as_array().cloned().unwrap_or_default() {
        let p = path_of(&r);
        let want = r["ok"].as_bool().unwrap_or(false);
        match observed.get(&p) {
            Some(got) if *got == want => {},
            Some(got) => {
                return Some(format!(
                    "send at path {:?}: model says {}, code says {}",
                    p,
                    if want { "ok" } else { "error" },
                    if *got { "ok" } else { "error" }
                ))
            },
            None => return Some(format!("send at path {:?} never happened", p)),
        }
    }
    if after != [0, 0, 0, 0] {
        return Some(format!(
            "attachment tables not empty after the top-level send returned: {:?}",
            after
        ));
    }
    // what each accepted message carries
    let visited = ctx.visited.borrow().clone();
    let mut delivered_paths = Vec::new();
    let mut received_endpoints: Vec<WireStep> = Vec::new();
    for m in case["out"].as_array().cloned().unwrap_or_default() {
        let p = path_of(&m);
        delivered_paths.push(p.clone());
        let rx = match b.targets.get(&p) {
            Some(Some(rx)) => rx,
            _ => return Some(format!("model delivers on path {:?} which has no live receiver", p)),
        };
        let got = match rx.try_recv() {
            Ok(v) => v,
            Err(e) => {
                return Some(format!(
                    "message of the send at path {:?} did not arrive intact: {:?}",
                    p, e
                ))
            },
        };
        let idx = m["idx"].as_array().cloned().unwrap_or_default();
        let own = m["own"].as_array().cloned().unwrap_or_default();
        if got.len() != idx.len() {
            return Some(format!(
                "message at path {:?}: {} steps, model has {}",
                p,
                got.len(),
                idx.len()
            ));
        }
        let mut a = 0;
        for (j, (g, e)) in got.into_iter().zip(idx.iter()).enumerate() {
            let k = gets(e, "k");
            let kind_ok = matches!(
                (&g, k),
                (WireStep::D(_), "D")
                    | (WireStep::S(_), "S")
                    | (WireStep::R(_), "R")
                    | (WireStep::M(_), "M")
                    | (WireStep::N(_), "N")
            );
            if !kind_ok {
                return Some(format!("message at path {:?}: position {} has the wrong kind", p, j));
            }
            if k == "S" || k == "R" || k == "M" {
                let att = geti(&own[a], "att") as usize; // model's id = visiting order
                a += 1;
                let uid = match visited.get(att - 1) {
                    Some(u) => *u,
                    None => return Some(format!("attachment {} was never visited", att)),
                };
                let nonce = 9000 + att as u64;
                let ok = match (&g, &b.kept[uid]) {
                    (WireStep::S(s), Kept::Rx(r)) => {
                        s.send(nonce).is_ok() && matches!(r.try_recv(), Ok(x) if x == nonce)
                    },
                    (WireStep::R(r), Kept::Tx(s)) => {
                        s.send(nonce).is_ok() && matches!(r.try_recv(), Ok(x) if x == nonce)
                    },
                    (WireStep::M(m), Kept::Bytes(bytes)) => &m[..] == &bytes[..],
                    _ => false,
                };
                if !ok {
                    return Some(format!(
                        "message at path {:?}: position {} is not the attachment placed there (attachment {})",
                        p, j, att
                    ));
                }
            }
            received_endpoints.push(g);
        }
    }
    // sends that failed (or whose receiver was gone) delivered nothing
    for (p, t) in b.targets.iter() {
        if delivered_paths.contains(p) {
            continue;
        }
        if let Some(rx) = t {
            match rx.try_recv() {
                Err(TryRecvError::Empty) | Err(TryRecvError::IpcError(IpcError::Disconnected)) => {},
                Ok(_) => return Some(format!("a failed send (path {:?}) delivered a message", p)),
                Err(e) => return Some(format!("a failed send (path {:?}) left debris: {:?}", p, e)),
            }
        }
    }
    // release: once the program's handles are gone every attached channel disconnects
    drop(received_endpoints);
    b.targets.clear();
    for (uid, k) in b.kept.iter().enumerate() {
        match k {
            Kept::Rx(r) => loop {
                match r.try_recv() {
                    Ok(_) => continue,
                    Err(TryRecvError::IpcError(IpcError::Disconnected)) => break,
                    Err(TryRecvError::Empty) => {
                        return Some(format!(
                            "sender attachment #{} is still held somewhere after every program handle was dropped (channel does not disconnect)",
                            uid
                        ))
                    },
                    Err(e) => return Some(format!("attachment #{}: {:?}", uid, e)),
                }
            },
            Kept::Tx(s) => {
                if s.send(1).is_ok() {
                    return Some(format!(
                        "receiver attachment #{} is still held somewhere after every program handle was dropped (send still succeeds)",
                        uid
                    ));
                }
            },
            Kept::Bytes(_) => {},
        }
    }
    // later traffic from this thread carries exactly its own attachments
    let (ftx, frx) = ipc::channel::<Vec<WireStep>>().unwrap();
    let (atx, arx) = ipc::channel::<u64>().unwrap();
    if ftx.send(vec![WireStep::D(1), WireStep::S(atx)]).is_err() {
        return Some("follow-up send failed".into());
    }
    match frx.try_recv() {
        Ok(v) if v.len() == 2 => match &v[1] {
            WireStep::S(s) => {
                if !(s.send(77).is_ok() && matches!(arx.try_recv(), Ok(77))) {
                    return Some("follow-up message carries a foreign attachment".into());
                }
            },
            _ => return Some("follow-up message has the wrong shape".into()),
        },
        Ok(_) => return Some("follow-up message has the wrong shape".into()),
        Err(e) => return Some(format!("follow-up message did not decode: {:?}", e)),
    }
    None
}

// ---------------------------------------------------------------------------------------------
// decode side

struct Raw {
    atts: Vec<WireStep>,
    bytes: Vec<u8>,
}

impl Serialize for Raw {
    fn serialize<S: Serializer>(&self, serializer: S) -> Result<S::Ok, S::Error> {
        // Register the attachments with the message being built (their indices go to a scratch
        // buffer), then emit exactly `bytes` as the message's payload.
        let mut scratch = Vec::new();
        for a in &self.atts {
            bincode::serialize_into(&mut scratch, a).expect("scratch serialisation");
        }
        let mut t = serializer.serialize_tuple(self.bytes.len())?;
        for b in &self.bytes {
            t.serialize_element(b)?;
        }
        t.end()
    }
}

fn make_atts(kinds: &[String], nshm: usize) -> (Vec<WireStep>, Vec<Kept>) {
    let mut atts = Vec::new();
    let mut kept = Vec::new();
    for k in kinds {
        let (tx, rx) = ipc::channel::<u64>().unwrap();
        if k == "R" {
            atts.push(WireStep::R(rx));
            kept.push(Kept::Tx(tx));
        } else {
            atts.push(WireStep::S(tx));
            kept.push(Kept::Rx(rx));
        }
    }
    for i in 0..nshm {
        let bytes = payload(500 + i as u64, 20 + i);
        atts.push(WireStep::M(IpcSharedMemory::from_bytes(&bytes)));
        kept.push(Kept::Bytes(bytes));
    }
    (atts, kept)
}

fn released(kept: &[Kept]) -> Option<String> {
    for (uid, k) in kept.iter().enumerate() {
        match k {
            Kept::Rx(r) => loop {
                match r.try_recv() {
                    Ok(_) => continue,
                    Err(TryRecvError::IpcError(IpcError::Disconnected)) => break,
                    Err(TryRecvError::Empty) => {
                        return Some(format!("attached sender #{} was not released", uid))
                    },
                    Err(e) => return Some(format!("attachment #{}: {:?}", uid, e)),
                }
            },
            Kept::Tx(s) => {
                if s.send(1).is_ok() {
                    return Some(format!("attached receiver #{} was not released", uid));
                }
            },
            Kept::Bytes(_) => {},
        }
    }
    None
}

/// Keeps the decoding thread (and with it its thread-local tables) alive until dropped: what a failed
/// decode leaves behind must be released while the thread lives on, not only when it ends.
pub struct KeepAlive(Option<std::sync::mpsc::Sender<()>>, Option<std::thread::JoinHandle<()>>);

impl Drop for KeepAlive {
    fn drop(&mut self) {
        drop(self.0.take());
        if let Some(h) = self.1.take() {
            let _ = h.join();
        }
    }
}

/// Send `bytes` with `atts` attached over a fresh channel and decode it as T on a fresh thread.
/// Returns ("ok"|"err"|"panic", decoded value if ok, side-table lengths seen by that thread afterwards).
fn decode_as<T>(atts: Vec<WireStep>, bytes: Vec<u8>, via_set: bool) -> (String, Option<T>, [usize; 4], KeepAlive)
where
    T: for<'de> Deserialize<'de> + Serialize + Send + 'static,
{
    let (tx, rx) = ipc::channel::<T>().unwrap();
    let raw_tx = tx.to_opaque().to::<Raw>();
    if raw_tx.send(Raw { atts, bytes }).is_err() {
        return ("send-failed".into(), None, [0; 4], KeepAlive(None, None));
    }
    drop(raw_tx);
    let (rtx, rrx) = std::sync::mpsc::channel();
    let (ktx, krx) = std::sync::mpsc::channel::<()>();
    let h = std::thread::spawn(move || {
        let r = std::panic::catch_unwind(std::panic::AssertUnwindSafe(|| {
            if via_set {
                let mut set = ipc::IpcReceiverSet::new().unwrap();
                set.add(rx).unwrap();
                for ev in set.select().unwrap() {
                    if let ipc::IpcSelectionResult::MessageReceived(_, m) = ev {
                        return m.to::<T>().map_err(|e| format!("{:?}", e));
                    }
                }
                Err("no message from the set".to_string())
            } else {
                rx.try_recv().map_err(|e| format!("{:?}", e))
            }
        }));
        let lens = lens();
        let _ = rtx.send((r, lens));
        // stay alive until the caller has looked at what was released
        let _ = krx.recv();
    });
    let keep = KeepAlive(Some(ktx), Some(h));
    match rrx.recv_timeout(std::time::Duration::from_secs(20)) {
        Ok((Ok(Ok(v)), l)) => ("ok".into(), Some(v), l, keep),
        Ok((Ok(Err(_)), l)) => ("err".into(), None, l, keep),
        Ok((Err(_), l)) => ("panic".into(), None, l, keep),
        Err(_) => ("hang".into(), None, [0; 4], keep),
    }
}

fn run_de(case: &Value) -> Option<String> {
    let kinds: Vec<String> = case["kinds"]
        .as_array()
        .map(|a| a.iter().map(|x| x.as_str().unwrap_or("S").to_string()).collect())
        .unwrap_or_else(|| {
            (0..geti(case, "nch"))
                .map(|i| if i % 2 == 0 { "S".to_string() } else { "R".to_string() })
                .collect()
        });
    let nshm = geti(case, "nshm") as usize;
    let refs = case["refs"].as_array().cloned().unwrap_or_default();
    let fds_before = list_fds().len();
    let (atts, kept) = make_atts(&kinds, nshm);
    // bincode encoding of Vec<WireStep> whose endpoints refer to the given indices
    let mut bytes = Vec::new();
    bytes.extend_from_slice(&(refs.len() as u64).to_le_bytes());
    for r in &refs {
        let variant: u32 = match gets(r, "k") {
            "S" => 1,
            "R" => 2,
            _ => 3,
        };
        bytes.extend_from_slice(&variant.to_le_bytes());
        bytes.extend_from_slice(&(geti(r, "i") as u64).to_le_bytes());
    }
    let via_set = geti(case, "id") % 3 == 2;
    let (res, val, tl, _keep) = decode_as::<Vec<WireStep>>(atts, bytes, via_set);
    let want = gets(case, "outcome");
    if res == "panic" {
        return Some("decoding panicked".into());
    }
    if tl != [0, 0, 0, 0] {
        return Some(format!("attachment tables of the decoding thread not empty after the decode returned: {:?}", tl));
    }
    if res != want {
        return Some(format!("model says {}, code says {}", want, res));
    }
    if let Some(v) = val {
        // every endpoint obtained must be the attachment its index designates
        for (g, r) in v.iter().zip(refs.iter()) {
            let i = geti(r, "i") as usize;
            let k = gets(r, "k");
            let ok = match (g, k) {
                (WireStep::S(s), "S") if kinds.get(i).map(|x| x == "S").unwrap_or(false) => {
                    match &kept[i] {
                        Kept::Rx(rx) => s.send(5).is_ok() && matches!(rx.try_recv(), Ok(5)),
                        _ => false,
                    }
                },
                (WireStep::R(rcv), "R") if kinds.get(i).map(|x| x == "R").unwrap_or(false) => {
                    match &kept[i] {
                        Kept::Tx(tx) => tx.send(6).is_ok() && matches!(rcv.try_recv(), Ok(6)),
                        _ => false,
                    }
                },
                (WireStep::M(m), "M") => match &kept[kinds.len() + i] {
                    Kept::Bytes(b) => &m[..] == &b[..],
                    _ => false,
                },
                // kind mismatch between reference and attachment: nothing to compare
                _ => true,
            };
            if !ok {
                return Some(format!(
                    "decoded endpoint for reference ({}, {}) is not that attachment",
                    k, i
                ));
            }
        }
        drop(v);
    }
    if let Some(why) = released(&kept) {
        return Some(why);
    }
    drop(kept);
    let fds_after = list_fds().len();
    if fds_after != fds_before {
        return Some(format!(
            "descriptors before {} after {} (not released)",
            fds_before, fds_after
        ));
    }
    None
}

#[derive(Serialize, Deserialize)]
enum ESmall {
    A,
    B(u8),
    C { x: i16, y: String },
}

#[derive(Serialize, Deserialize)]
struct Nested {
    a: u32,
    s: IpcSender<u64>,
    v: Vec<WireStep>,
    m: Option<IpcSharedMemory>,
}

fn run_fuzz(case: &Value) -> Option<String> {
    let kinds: Vec<String> = case["kinds"]
        .as_array()
        .map(|a| a.iter().map(|x| x.as_str().unwrap_or("S").to_string()).collect())
        .unwrap_or_default();
    let ch: Vec<String> = kinds.iter().filter(|k| *k != "M").cloned().collect();
    let nshm = kinds.iter().filter(|k| *k == "M").count();
    let bytes: Vec<u8> = case["bytes"]
        .as_array()
        .map(|a| a.iter().map(|x| x.as_u64().unwrap_or(0) as u8).collect())
        .unwrap_or_default();
    let fds_before = list_fds().len();
    let (atts, kept) = make_atts(&ch, nshm);
    let via_set = geti(case, "id") % 4 == 3;
    let mut keeps: Vec<KeepAlive> = Vec::new();
    fn fz<T>(atts: Vec<WireStep>, bytes: Vec<u8>, via_set: bool, keeps: &mut Vec<KeepAlive>) -> String
    where
        T: for<'de> Deserialize<'de> + Serialize + Send + 'static,
    {
        let (res, val, tl, keep) = decode_as::<T>(atts, bytes, via_set);
        drop(val);
        keeps.push(keep);
        if res != "panic" && tl != [0, 0, 0, 0] {
            return format!("tables:{:?}", tl);
        }
        res
    }
    let res = match geti(case, "ty") % 12 {
        0 => fz::<u64>(atts, bytes, via_set, &mut keeps),
        1 => fz::<String>(atts, bytes, via_set, &mut keeps),
        2 => fz::<Vec<u8>>(atts, bytes, via_set, &mut keeps),
        3 => fz::<(u32, String)>(atts, bytes, via_set, &mut keeps),
        4 => fz::<Option<bool>>(atts, bytes, via_set, &mut keeps),
        5 => fz::<ESmall>(atts, bytes, via_set, &mut keeps),
        6 => fz::<IpcSender<u64>>(atts, bytes, via_set, &mut keeps),
        7 => fz::<IpcReceiver<u64>>(atts, bytes, via_set, &mut keeps),
        8 => fz::<IpcSharedMemory>(atts, bytes, via_set, &mut keeps),
        9 => fz::<Vec<WireStep>>(atts, bytes, via_set, &mut keeps),
        10 => fz::<(IpcSender<u64>, IpcSharedMemory)>(atts, bytes, via_set, &mut keeps),
        _ => fz::<Nested>(atts, bytes, via_set, &mut keeps),
    };
    if res == "panic" {
        return Some("decoding panicked".into());
    }
    if res == "send-failed" {
        return Some("could not send the crafted message".into());
    }
    if res.starts_with("tables:") {
        return Some(format!("attachment tables of the decoding thread not empty after the decode returned ({})", res));
    }
    if let Some(why) = released(&kept) {
        return Some(why);
    }
    drop(kept);
    let fds_after = list_fds().len();
    if fds_after != fds_before {
        return Some(format!(
            "descriptors before {} after {} (not released)",
            fds_before, fds_after
        ));
    }
    None
}

/// A message with attachments that is received and dropped without ever being decoded.
fn run_undecoded(case: &Value) -> Option<String> {
    let kinds = vec!["S".to_string(), "R".to_string(), "S".to_string()];
    let fds_before = list_fds().len();
    let (atts, kept) = make_atts(&kinds, 2);
    let (tx, rx) = ipc::channel::<u64>().unwrap();
    let raw_tx = tx.to_opaque().to::<Raw>();
    if raw_tx
        .send(Raw {
            atts,
            bytes: vec![1, 2, 3],
        })
        .is_err()
    {
        return Some("send failed".into());
    }
    drop(raw_tx);
    let via_set = geti(case, "id") % 2 == 0;
    let h = std::thread::spawn(move || {
        if via_set {
            let mut set = ipc::IpcReceiverSet::new().unwrap();
            set.add(rx).unwrap();
            let evs = set.select().unwrap();
            drop(evs); // messages dropped undecoded
        } else {
            let o = rx.to_opaque();
            drop(o); // receiver dropped with the message still queued
        }
    });
    if h.join().is_err() {
        return Some("dropping an undecoded message panicked".into());
    }
    if let Some(why) = released(&kept) {
        return Some(why);
    }
    drop(kept);
    let fds_after = list_fds().len();
    if fds_after != fds_before {
        return Some(format!(
            "descriptors before {} after {} (not released)",
            fds_before, fds_after
        ));
    }
    None
}

pub fn run() {
    raise_nofile();
    verif::init();
    for case in read_json_lines() {
        let id = geti(&case, "id");
        out_line(&json!({"begin": id}));
        let mode = gets(&case, "mode").to_string();
        let c2 = case.clone();
        // each case on its own thread: the tables are per thread, and a panic must not poison
        // the next case
        let h = std::thread::spawn(move || match mode.as_str() {
            "ser" => run_ser(&c2),
            "de" => run_de(&c2),
            "fuzz" => run_fuzz(&c2),
            "undecoded" => run_undecoded(&c2),
            _ => Some("unknown mode".into()),
        });
        let verdict = match h.join() {
            Ok(None) => json!({"id": id, "ok": true}),
            Ok(Some(why)) => json!({"id": id, "ok": false, "why": why}),
            Err(_) => json!({"id": id, "ok": false, "why": "the case panicked"}),
        };
        out_line(&verdict);
    }
}

// `OpaqueIpcSender::to::<T>()` wants T: Deserialize; these two types are only ever sent.
impl<'de> Deserialize<'de> for Script {
    fn deserialize<D: serde::Deserializer<'de>>(_d: D) -> Result<Self, D::Error> {
        Err(serde::de::Error::custom("Script is send-only"))
    }
}

impl<'de> Deserialize<'de> for Raw {
    fn deserialize<D: serde::Deserializer<'de>>(_d: D) -> Result<Self, D::Error> {
        Err(serde::de::Error::custom("Raw is send-only"))
    }
}
