//! B3 driver for AsyncRouter.tla (build with --features async).
//!
//! `vharness async`: stdin = one scenario per line
//!   {"id":N,"seed":S,"msgs":[3,0,2],"pre":[1,0,2],"threads":2,"consumer":["block_on","manual","pool"]}
//! Each stream's channel gets pre[s] messages before the conversion and the rest afterwards.

use crate::common::*;
use futures::stream::StreamExt;
use futures::task::{ArcWake, Context, Poll};
use ipc_channel::ipc;
use rand::rngs::StdRng;
use rand::{Rng, SeedableRng};
use serde_json::{json, Value};
use std::sync::atomic::{AtomicUsize, Ordering};
use std::sync::{Arc, Condvar, Mutex};
use std::time::Duration;

struct CountingWaker {
    s: i64,
    wakes: AtomicUsize,
    flag: Mutex<bool>,
    cv: Condvar,
}

impl ArcWake for CountingWaker {
    fn wake_by_ref(arc: &Arc<Self>) {
        arc.wakes.fetch_add(1, Ordering::SeqCst);
        verif::emit("h.woken", &[("s", arc.s)]);
        *arc.flag.lock().unwrap() = true;
        arc.cv.notify_all();
    }
}

fn jitter(rng: &mut StdRng) {
    match rng.gen_range(0..6) {
        0 => std::thread::yield_now(),
        1 => std::thread::sleep(Duration::from_micros(rng.gen_range(1..300))),
        2 => std::thread::sleep(Duration::from_micros(rng.gen_range(300..1500))),
        _ => {},
    }
}

pub fn run() {
    raise_nofile();
    verif::init();
    install_panic_recorder();
    for sc in read_json_lines() {
        let v = scenario(&sc);
        out_line(&v);
    }
}

fn scenario(sc: &Value) -> Value {
    let id = geti(sc, "id");
    let seed = geti(sc, "seed") as u64;
    let msgs: Vec<i64> = sc["msgs"].as_array().map(|a| a.iter().filter_map(|x| x.as_i64()).collect()).unwrap_or_default();
    let pre: Vec<i64> = sc["pre"].as_array().map(|a| a.iter().filter_map(|x| x.as_i64()).collect()).unwrap_or_default();
    let consumers: Vec<String> = sc["consumer"].as_array().map(|a| a.iter().map(|x| x.as_str().unwrap_or("block_on").to_string()).collect()).unwrap_or_default();
    let n = msgs.len();
    let delays: Vec<u64> = sc["delay"].as_array().map(|a| a.iter().map(|x| x.as_u64().unwrap_or(0)).collect()).unwrap_or_default();
    // "burst": every conversion waits for all the others right before calling to_stream()
    let burst = sc["burst"].as_bool().unwrap_or(false);
    let conv_barrier = Arc::new(std::sync::Barrier::new(if burst { n } else { 1 }));
    // set when the stream(s) without delay have been consumed completely
    let target_done = Arc::new(std::sync::atomic::AtomicBool::new(false));
    verif::set_actor(0);
    verif::emit("h.scenario", &[("id", id), ("streams", n as i64)]);
    let onecpu = sc["onecpu"].as_bool().unwrap_or(false);
    if onecpu {
        // the CPU this thread is running on right now (the scheduler put us there: it is not the busiest one)
        let cpu = unsafe { libc::sched_getcpu() };
        pin_all_threads(Some(if cpu >= 0 { cpu as usize } else { 0 }));
    }
    // stalls: hold a thread for a while at a hook point (between queueing a route and waking the routing thread,
    // in the routing thread between forwarding a message / installing a route and its next step)
    let stalls: std::collections::HashMap<String, u64> = sc["stalls"]
        .as_object()
        .map(|m| m.iter().filter_map(|(k, v)| v.as_u64().map(|u| (k.clone(), u))).collect())
        .unwrap_or_default();
    if stalls.is_empty() {
        verif::set_gate_hook(None);
    } else {
        verif::set_gate_hook(Some(Box::new(move |site, _| {
            if let Some(us) = stalls.get(site) {
                std::thread::sleep(std::time::Duration::from_micros(*us));
            }
        })));
    }
    let results: Arc<Mutex<Vec<Value>>> = Arc::new(Mutex::new(Vec::new()));
    let mut threads = Vec::new();
    for s in 1..=n {
        let (tx, rx) = ipc::channel::<u64>().unwrap();
        let total = msgs[s - 1];
        let before = pre.get(s - 1).copied().unwrap_or(0).min(total);
        let consumer = consumers.get(s - 1).cloned().unwrap_or_else(|| "block_on".into());
        let results = results.clone();
        let conv_barrier = conv_barrier.clone();
        // sender thread
        let (go_tx, go_rx) = std::sync::mpsc::channel::<()>();
        let (conv_tx, conv_rx) = std::sync::mpsc::channel::<()>();
        let delay = delays.get(s - 1).copied().unwrap_or(0);
        let td_sender = target_done.clone();
        let td_consumer = target_done.clone();
        threads.push(std::thread::spawn(move || {
            verif::set_actor(300 + s as i64);
            let mut rng = StdRng::seed_from_u64(seed * 1000 + s as u64);
            let mut x = 1;
            while x <= before {
                verif::emit("h.send", &[("s", s as i64), ("x", x)]);
                let _ = tx.send(x as u64);
                verif::emit("h.sent", &[("s", s as i64), ("x", x)]);
                x += 1;
            }
            let _ = go_tx.send(());
            if delay > 0 {
                // stay idle (handle open, nothing sent) after the conversion until the undelayed stream has been
                // consumed - or for `delay` ms at most: nothing but that stream's own traffic may be needed for it
                let _ = conv_rx.recv();
                let t0 = std::time::Instant::now();
                while !td_sender.load(Ordering::SeqCst) && t0.elapsed() < Duration::from_millis(delay) {
                    std::thread::sleep(Duration::from_millis(10));
                }
            }
            while x <= total {
                jitter(&mut rng);
                verif::emit("h.send", &[("s", s as i64), ("x", x)]);
                let _ = tx.send(x as u64);
                verif::emit("h.sent", &[("s", s as i64), ("x", x)]);
                x += 1;
            }
            jitter(&mut rng);
            verif::emit("h.senderdrop", &[("s", s as i64)]);
            drop(tx);
            verif::emit("h.senderdropped", &[("s", s as i64)]);
        }));
        // converting + consuming thread
        threads.push(std::thread::spawn(move || {
            verif::set_actor(400 + s as i64);
            let mut rng = StdRng::seed_from_u64(seed * 31 + s as u64);
            let _ = go_rx.recv();
            if burst {
                conv_barrier.wait();
            } else {
                jitter(&mut rng);
            }
            verif::emit("h.tostream", &[("s", s as i64)]);
            if onecpu {
                // the converting thread runs in the idle scheduling class on the CPU it shares with the routing thread:
                // whenever it wakes that thread up (a wake-up message), it is preempted on the spot
                unsafe {
                    let p = libc::sched_param { sched_priority: 0 };
                    libc::sched_setscheduler(0, libc::SCHED_IDLE, &p);
                }
            }
            let mut stream = rx.to_stream();
            if onecpu {
                unsafe {
                    let p = libc::sched_param { sched_priority: 0 };
                    libc::sched_setscheduler(0, libc::SCHED_OTHER, &p);
                }
            }
            verif::emit("h.tostream.done", &[("s", s as i64)]);
            let _ = conv_tx.send(());
            let t_conv = std::time::Instant::now();
            let mut got: Vec<u64> = Vec::new();
            let mut ended = false;
            let mut stuck = false;
            match consumer.as_str() {
                "abandon" => {
                    // the consumer takes at most one item, then drops the stream while its sender lives on
                    let first = with_stream_first(&mut stream);
                    if let Some(v) = first {
                        verif::emit("h.item", &[("s", s as i64), ("x", v as i64)]);
                        got.push(v);
                    }
                    verif::emit("h.abandon", &[("s", s as i64)]);
                    drop(stream);
                    ended = false;
                    if delay == 0 {
                        td_consumer.store(true, Ordering::SeqCst);
                    }
                    results.lock().unwrap().push(json!({"s": s, "got": got, "ended": ended, "stuck": false, "consumer": consumer,
                                                        "elapsed_ms": t_conv.elapsed().as_millis() as u64}));
                    return;
                },
                "manual" => {
                    let w = Arc::new(CountingWaker { s: s as i64, wakes: AtomicUsize::new(0), flag: Mutex::new(false), cv: Condvar::new() });
                    let waker = futures::task::waker(w.clone());
                    let mut cx = Context::from_waker(&waker);
                    loop {
                        match stream.poll_next_unpin(&mut cx) {
                            Poll::Ready(Some(Ok(v))) => {
                                verif::emit("h.item", &[("s", s as i64), ("x", v as i64)]);
                                got.push(v);
                            },
                            Poll::Ready(Some(Err(_))) => {
                                verif::emit("h.item", &[("s", s as i64), ("x", -1)]);
                                got.push(u64::MAX);
                            },
                            Poll::Ready(None) => {
                                verif::emit("h.end", &[("s", s as i64)]);
                                ended = true;
                                break;
                            },
                            Poll::Pending => {
                                verif::emit("h.pending", &[("s", s as i64)]);
                                // sleep until woken; never being woken is the bug to catch
                                let mut f = w.flag.lock().unwrap();
                                let mut waited = 0;
                                while !*f {
                                    let (g, t) = w.cv.wait_timeout(f, Duration::from_millis(500)).unwrap();
                                    f = g;
                                    if t.timed_out() {
                                        waited += 1;
                                        if waited >= 16 {
                                            break;
                                        }
                                    }
                                }
                                if !*f {
                                    stuck = true;
                                    break;
                                }
                                *f = false;
                            },
                        }
                    }
                },
                "pool" => {
                    let mut pool = futures::executor::LocalPool::new();
                    let r = pool.run_until(async {
                        let mut v = Vec::new();
                        while let Some(item) = stream.next().await {
                            let x = item.map(|x| x as i64).unwrap_or(-1);
                            verif::emit("h.item", &[("s", s as i64), ("x", x)]);
                            v.push(x as u64);
                        }
                        verif::emit("h.end", &[("s", s as i64)]);
                        v
                    });
                    got = r;
                    ended = true;
                },
                _ => {
                    got = futures::executor::block_on(async {
                        let mut v = Vec::new();
                        while let Some(item) = stream.next().await {
                            let x = item.map(|x| x as i64).unwrap_or(-1);
                            verif::emit("h.item", &[("s", s as i64), ("x", x)]);
                            v.push(x as u64);
                        }
                        verif::emit("h.end", &[("s", s as i64)]);
                        v
                    });
                    ended = true;
                },
            }
            if delay == 0 {
                td_consumer.store(true, Ordering::SeqCst);
            }
            results.lock().unwrap().push(json!({"s": s, "got": got, "ended": ended, "stuck": stuck, "consumer": consumer,
                                                "elapsed_ms": t_conv.elapsed().as_millis() as u64}));
        }));
    }
    let mut hang = false;
    for h in threads {
        if with_watchdog(15_000, move || h.join()).is_err() {
            hang = true;
        }
    }
    verif::set_gate_hook(None);
    if onecpu {
        pin_all_threads(None);
    }
    verif::emit("h.scenario.end", &[("id", id)]);
    let r = results.lock().unwrap().clone();
    json!({"id": id, "hang": hang, "streams": r})
}

/// First item of the stream if one shows up within 50 ms (used by the `abandon` consumer).
fn with_stream_first(stream: &mut ipc_channel::asynch::IpcStream<u64>) -> Option<u64> {
    let waker = futures::task::noop_waker();
    let mut cx = Context::from_waker(&waker);
    let t0 = std::time::Instant::now();
    loop {
        match stream.poll_next_unpin(&mut cx) {
            Poll::Ready(Some(Ok(v))) => return Some(v),
            Poll::Ready(_) => return None,
            Poll::Pending => {
                if t0.elapsed() > Duration::from_millis(50) {
                    return None;
                }
                std::thread::sleep(Duration::from_millis(1));
            },
        }
    }
}

/// Pin every thread of this process (the lazily created routing thread included) to one CPU, or release them again.
fn pin_all_threads(cpu: Option<usize>) {
    let ncpu = unsafe { libc::sysconf(libc::_SC_NPROCESSORS_CONF) }.max(1) as usize;
    let mut set: libc::cpu_set_t = unsafe { std::mem::zeroed() };
    unsafe {
        libc::CPU_ZERO(&mut set);
        match cpu {
            Some(c) => libc::CPU_SET(c, &mut set),
            None => {
                for c in 0..ncpu.min(1024) {
                    libc::CPU_SET(c, &mut set);
                }
            },
        }
    }
    if let Ok(rd) = std::fs::read_dir("/proc/self/task") {
        for e in rd.flatten() {
            if let Ok(tid) = e.file_name().to_string_lossy().parse::<i32>() {
                unsafe {
                    libc::sched_setaffinity(tid, std::mem::size_of::<libc::cpu_set_t>(), &set);
                }
            }
        }
    }
}
