//! B1 replay of `Frag.tla` behaviours against the platform layer.
//!
//! Input (stdin): one JSON object per line {id, len, natt, mix, fh:[bool..], api}.
//! Output: one JSON object per line with what the code did.

use crate::common::*;
use ipc_channel::platform::{self, OsIpcChannel, OsIpcReceiver, OsIpcSender, OsIpcSharedMemory};
use serde_json::{json, Value};
use std::sync::atomic::{AtomicUsize, Ordering};
use std::sync::{Arc, Mutex};

const SENDER_ACTOR: i64 = 1;
const RECEIVER_ACTOR: i64 = 2;

enum Probe {
    /// we attached a sender of a fresh channel and kept its receiver
    KeptReceiver(OsIpcReceiver),
    /// we attached a receiver of a fresh channel and kept its sender
    KeptSender(OsIpcSender),
    /// we attached one more clone of the sender of `shared` (every clone shares one descriptor)
    Shared,
}

fn region_bytes(case: u64, k: usize) -> Vec<u8> {
    payload(case * 1000 + k as u64 + 7, 1 + (k * 37) % 300)
}

pub fn run() {
    raise_nofile();
    verif::init();
    // force the lazily initialised SYSTEM_SENDBUF_SIZE (it creates a socket pair) before any case
    let _ = platform::verif_constants(4096);
    let plan: Arc<Mutex<Vec<bool>>> = Arc::new(Mutex::new(Vec::new()));
    let attempt = Arc::new(AtomicUsize::new(0));
    let injected = Arc::new(AtomicUsize::new(0));
    let hard_at = Arc::new(AtomicUsize::new(0));
    {
        let plan = plan.clone();
        let attempt = attempt.clone();
        let injected = injected.clone();
        let hard_at = hard_at.clone();
        verif::set_fault_hook(Some(Box::new(move |_site, _fields| {
            if verif::actor() != SENDER_ACTOR {
                return None;
            }
            let i = attempt.fetch_add(1, Ordering::SeqCst);
            let p = plan.lock().unwrap();
            if i < p.len() && p[i] {
                injected.fetch_add(1, Ordering::SeqCst);
                // attempt number `hard` fails with an error the code does not retry
                if hard_at.load(Ordering::SeqCst) == i + 1 {
                    Some(libc::EINTR)
                } else {
                    Some(libc::ENOBUFS)
                }
            } else {
                None
            }
        })));
    }
    for case in read_json_lines() {
        injected.store(0, Ordering::SeqCst);
        hard_at.store(geti(&case, "hard").max(0) as usize, Ordering::SeqCst);
        let r = run_case(&case, &plan, &attempt, &injected);
        out_line(&r);
    }
}

fn run_case(
    case: &Value,
    plan: &Arc<Mutex<Vec<bool>>>,
    attempt: &Arc<AtomicUsize>,
    injected: &Arc<AtomicUsize>,
) -> Value {
    let id = geti(case, "id") as u64;
    let len = geti(case, "len") as usize;
    let natt = geti(case, "natt") as usize;
    let mix = geti(case, "mix");
    let fh: Vec<bool> = case
        .get("fh")
        .and_then(|v| v.as_array())
        .map(|a| a.iter().map(|b| b.as_bool().unwrap_or(false)).collect())
        .unwrap_or_default();

    verif::set_actor(0);
    verif::emit(
        "case",
        &[("id", id as i64), ("len", len as i64), ("natt", natt as i64)],
    );
    let (tx, rx) = platform::channel().expect("channel");
    let data = payload(id, len);

    // attachments: channels first, then regions (that is the order the transport uses)
    let mut channels = Vec::new();
    let mut regions = Vec::new();
    let mut probes = Vec::new();
    let mut region_expect = Vec::new();
    // mix 4: every attachment is a clone of one and the same sender (one descriptor, attached natt times)
    let shared = platform::channel().expect("channel");
    for k in 0..natt {
        if mix == 4 {
            channels.push(OsIpcChannel::Sender(shared.0.clone()));
            probes.push(Probe::Shared);
            continue;
        }
        let kind = match mix {
            0 => 0,
            1 => 2,
            2 => k % 3,
            _ => (k * 7 + id as usize) % 3,
        };
        match kind {
            0 => {
                let (s, r) = platform::channel().expect("channel");
                channels.push(OsIpcChannel::Sender(s));
                probes.push(Probe::KeptReceiver(r));
            },
            1 => {
                let (s, r) = platform::channel().expect("channel");
                channels.push(OsIpcChannel::Receiver(r));
                probes.push(Probe::KeptSender(s));
            },
            _ => {
                let b = region_bytes(id, k);
                regions.push(OsIpcSharedMemory::from_bytes(&b));
                region_expect.push(b);
            },
        }
    }
    let (nch, nshm) = (channels.len(), regions.len());

    // receiver thread
    let (rtx, rrx) = std::sync::mpsc::channel();
    std::thread::spawn(move || {
        verif::set_actor(RECEIVER_ACTOR);
        let r = std::panic::catch_unwind(std::panic::AssertUnwindSafe(|| rx.recv()));
        let _ = rtx.send((r, rx));
    });

    *plan.lock().unwrap() = fh.clone();
    attempt.store(0, Ordering::SeqCst);
    verif::set_actor(SENDER_ACTOR);
    let sres = std::panic::catch_unwind(std::panic::AssertUnwindSafe(|| {
        tx.send(&data, channels, regions)
    }));
    verif::set_actor(0);
    let attempts = attempt.load(Ordering::SeqCst);
    plan.lock().unwrap().clear();

    let mut out = json!({"id": id, "len": len, "natt": natt, "nch": nch, "nshm": nshm,
                         "attempts": attempts});
    let send_ok = match &sres {
        Ok(Ok(())) => {
            out["sres"] = json!("ok");
            true
        },
        Ok(Err(e)) => {
            out["sres"] = json!("err");
            out["serr"] = json!(format!("{:?}", e));
            false
        },
        Err(_) => {
            out["sres"] = json!("panic");
            false
        },
    };
    let tx = Some(tx);
    let follow_nonce = payload(id ^ 0x5555, 40);
    let mut follow_sent_early = false;
    let transmitted = attempts - injected.load(Ordering::SeqCst);
    let mut early_got = None;
    let mut send_follow_now = !send_ok && transmitted == 0;
    if !send_ok && transmitted > 0 {
        // Some real transmission was attempted: if it went out, the receiver is inside the
        // message and sees its end as soon as the sender's dedicated socket is closed.
        match rrx.recv_timeout(std::time::Duration::from_millis(500)) {
            Ok(g) => early_got = Some(g),
            Err(_) => {
                // evidently nothing arrived; the trace of this case is not validated because the
                // follow-on message below may race with a receiver that is merely slow
                verif::emit("case.skip", &[("id", id as i64)]);
                send_follow_now = true;
            },
        }
    }
    if send_follow_now {
        // The channel must stay usable after a refused/failed send: push a small message through
        // it. Nothing of the failed message was transmitted, so the receiver is still waiting for
        // a first packet and will return this one. It is a case of its own for the trace.
        verif::emit(
            "case",
            &[("id", id as i64 + 1_000_000), ("len", 40), ("natt", 0)],
        );
        verif::set_actor(SENDER_ACTOR);
        follow_sent_early = tx
            .as_ref()
            .unwrap()
            .send(&follow_nonce, vec![], vec![])
            .is_ok();
        verif::set_actor(0);
        out["follow_sent"] = json!(follow_sent_early);
    }
    let got = match early_got {
        Some(g) => Ok(g),
        None => rrx.recv_timeout(std::time::Duration::from_secs(if send_ok { 8 } else { 4 })),
    };
    let mut rx_back = None;
    match got {
        Err(_) => {
            out["rres"] = json!("hang");
        },
        Ok((Err(_), rx)) => {
            out["rres"] = json!("panic");
            rx_back = Some(rx);
        },
        Ok((Ok(Err(e)), rx)) => {
            out["rres"] = json!(if e.channel_is_closed() { "closed" } else { "err" });
            out["rerr"] = json!(format!("{:?}", e));
            rx_back = Some(rx);
        },
        Ok((Ok(Ok((rdata, _, _))), rx)) if follow_sent_early && rdata == follow_nonce => {
            // nothing of the failed message was delivered; the channel still works
            out["rres"] = json!("none");
            out["follow_ok"] = json!(true);
            follow_sent_early = false;
            rx_back = Some(rx);
        },
        Ok((Ok(Ok((rdata, mut rch, rshm))), rx)) => {
            out["rres"] = json!("ok");
            out["rlen"] = json!(rdata.len());
            let d = first_diff(&rdata, &data);
            out["data_ok"] = json!(d.is_none());
            if let Some(i) = d {
                out["first_diff"] = json!(i);
            }
            out["rnch"] = json!(rch.len());
            out["rnshm"] = json!(rshm.len());
            let mut atts_ok = rch.len() == nch && rshm.len() == nshm;
            let mut why = String::new();
            if atts_ok {
                for (k, probe) in probes.iter().enumerate() {
                    let nonce = payload(id * 7919 + k as u64, 24);
                    let ok = match probe {
                        Probe::KeptReceiver(r) => {
                            let s = rch[k].to_sender();
                            s.send(&nonce, vec![], vec![]).is_ok()
                                && matches!(r.try_recv(), Ok((d, _, _)) if d == nonce)
                        },
                        Probe::KeptSender(s) => {
                            let r = rch[k].to_receiver();
                            s.send(&nonce, vec![], vec![]).is_ok()
                                && matches!(r.try_recv(), Ok((d, _, _)) if d == nonce)
                        },
                        Probe::Shared => {
                            let s = rch[k].to_sender();
                            s.send(&nonce, vec![], vec![]).is_ok()
                                && matches!(shared.1.try_recv(), Ok((d, _, _)) if d == nonce)
                        },
                    };
                    if !ok {
                        atts_ok = false;
                        why = format!("channel attachment {} is not the attached channel", k);
                        break;
                    }
                }
                for (k, want) in region_expect.iter().enumerate() {
                    if &rshm[k][..] != &want[..] {
                        atts_ok = false;
                        why = format!("region {} differs", k);
                        break;
                    }
                }
            } else {
                // consume what did arrive so that nothing is dropped unconverted
                why = format!("got {} channels and {} regions", rch.len(), rshm.len());
            }
            for c in rch.iter_mut() {
                // converting twice is harmless for the ones already converted (fd is -1 then)
                let _ = std::panic::catch_unwind(std::panic::AssertUnwindSafe(|| {
                    drop(c.to_receiver())
                }));
            }
            out["atts_ok"] = json!(atts_ok);
            if !why.is_empty() {
                out["atts_why"] = json!(why);
            }
            rx_back = Some(rx);
        },
    }
    // the channel must remain usable for another message
    if let (Some(tx), Some(rx)) = (tx.as_ref(), rx_back.as_ref()) {
        if follow_sent_early {
            // sent before the receiver reported: it must be the next message
            let ok = matches!(rx.try_recv(), Ok((d, _, _)) if d == follow_nonce);
            out["follow_ok"] = json!(ok);
        } else if out.get("follow_ok").is_none() {
            let ok = tx.send(&follow_nonce, vec![], vec![]).is_ok()
                && matches!(rx.try_recv(), Ok((d, _, _)) if d == follow_nonce);
            out["follow_ok"] = json!(ok);
        }
    }
    verif::emit("case.end", &[("id", id as i64)]);
    out
}
