#!/bin/sh
# Build the framework from files on disk only (offline).
set -e
cd "$(dirname "$0")"
export CARGO_NET_OFFLINE=true
mkdir -p out evidence
[ -f harness/Cargo.lock ] || cp /repo/Cargo.lock harness/Cargo.lock
for v in os memfd inprocess async; do
  case $v in
    os) feat="" ;;
    *) feat="--features $v" ;;
  esac
  (cd harness && cargo build --offline --target-dir target-$v $feat 2>&1 | tail -3)
done
(cd spec && for m in *.tla; do
  tla-sany "$m" >/dev/null 2>&1 || { echo "SANY failed on $m"; tla-sany "$m" | tail -20; exit 1; }
done)
echo "setup ok"
